(* C10 -- property theorems only. *)
From Coq Require Import List Bool NArith.
From TsrunV Require Import Regs.Alloc Regs.Proofs Regs.Windows.
Import ListNotations.
Local Open Scope N_scope.

(* for every disciplined sequence of allocator operations, whatever an
   operation hands out is distinct, not in use, and below max_used <= 255 *)
Theorem c10_alloc_no_alias : forall os o, all_disciplined rs_init (os ++ [o]) ->
  let s := rexec rs_init os in
  inv s /\
  match snd (rstep s o) with
  | Ok regs => NoDup regs /\ Forall (fun x => ~ In x (live s)) regs /\
               Forall (fun x => x < max_used (ra (fst (rstep s o)))) regs /\ Forall (fun x => x < 255) regs
  | ErrLimit => fst (rstep s o) = s
  end.
Proof. exact alloc_no_alias_lemma. Qed.
Print Assumptions c10_alloc_no_alias.

(* a sized construct of ANY size n is refused with a limit error or gets n
   distinct consecutive registers above everything in use; it never panics *)
Theorem c10_window_size_independent : forall p a n,
  match snd (window_checked p a n) with
  | WLimit => fst (window_checked p a n) = a
  | WPanic => False
  | WOk regs =>
      n <= 255 /\ regs = range (next a) n /\ next (fst (window_checked p a n)) = next a + n /\
      next a + n <= 255 /\ NoDup regs /\ Forall (fun r => next a <= r < next a + n) regs /\
      N.of_nat (length regs) = n
  end.
Proof. exact window_checked_ok. Qed.
Print Assumptions c10_window_size_independent.

(* the code before fix ee6f55b violated it at n = 256 *)
Theorem c10_unchecked_narrowing_refuted :
  let a := fst (reserve_range ra_init 1) in
  snd (window_unchecked Debug a 256) = WPanic /\
  (exists regs, snd (window_unchecked Release a 256) = WOk regs /\ In 0 regs /\ 0 < next a) /\
  snd (window_checked Debug a 256) = WLimit /\ snd (window_checked Release a 256) = WLimit.
Proof. exact window_unchecked_refuted. Qed.
Print Assumptions c10_unchecked_narrowing_refuted.

(* known finding F2: limits are cumulative because windows are never released *)
Theorem c10_limits_cumulative_refuted :
  let a := rexec rs_init (repeat (RReserve 2) 127) in
  snd (rstep a (RReserve 2)) = ErrLimit /\ snd (rstep rs_init (RReserve 2)) = Ok [0; 1].
Proof. exact unreleased_windows_accumulate_refuted. Qed.
Print Assumptions c10_limits_cumulative_refuted.
