(* Register windows of sized constructs: with the limit check in front of the
   narrowing cast a window is either refused or consists of n distinct, fresh,
   in-range registers; without it the statement is false (witnesses). *)
From Coq Require Import List Bool NArith Lia.
From TsrunV Require Import Regs.Alloc Regs.Proofs.
Import ListNotations.
Local Open Scope N_scope.

Lemma as_u8_small i : i < 256 -> as_u8 i = i.
Proof. intros H. unfold as_u8. apply N.mod_small; auto. Qed.

Lemma window_regs_small p start : forall k i,
  i + N.of_nat k <= 256 -> start + i + N.of_nat k <= 256 ->
  window_regs p start k i = Some (map (fun j => start + i + N.of_nat j) (seq 0 k)).
Proof.
  induction k as [|k IH]; intros i Hi Hs; [reflexivity|].
  cbn [window_regs]. rewrite as_u8_small by lia.
  destruct (N.ltb_spec 255 (start + i)) as [Ov|Fit]; [lia|].
  rewrite IH by lia. cbn [option_map seq map]. f_equal. f_equal.
  - lia.
  - rewrite <- seq_shift, map_map. apply map_ext. intros j. lia.
Qed.

Theorem window_checked_ok p a n :
  match snd (window_checked p a n) with
  | WLimit => fst (window_checked p a n) = a
  | WPanic => False
  | WOk regs =>
      n <= 255 /\ regs = range (next a) n /\ next (fst (window_checked p a n)) = next a + n /\
      next a + n <= 255 /\ NoDup regs /\ Forall (fun r => next a <= r < next a + n) regs /\
      N.of_nat (length regs) = n
  end.
Proof.
  unfold window_checked. destruct (N.ltb_spec 255 n) as [Big|Small]; [reflexivity|].
  unfold window_unchecked, reserve_range. rewrite as_u8_small by lia.
  destruct (N.ltb_spec 255 (next a + n)) as [Ov|Fit]; [reflexivity|]. cbn [fst snd next].
  rewrite window_regs_small by lia. cbn [fst snd next].
  assert (E : map (fun j => next a + 0 + N.of_nat j) (seq 0 (N.to_nat n)) = range (next a) n).
  { unfold range. apply map_ext. intros; lia. }
  rewrite E. split; [exact Small|]. split; [reflexivity|]. split; [reflexivity|]. split; [exact Fit|].
  split; [apply NoDup_range|]. split.
  - rewrite Forall_forall. intros x Hx. apply In_range in Hx. lia.
  - unfold range. rewrite map_length, seq_length. lia.
Qed.

(* small sizes: the pinned code and the repaired code coincide *)
Lemma window_unchecked_small p a n : n <= 255 -> window_unchecked p a n = window_checked p a n.
Proof. intros H. unfold window_checked. destruct (N.ltb_spec 255 n); [lia|reflexivity]. Qed.

(* the pinned code: a 256-element window with one register in use panics in
   debug builds and, in release builds, hands out register 0 -- which is in use *)
Lemma window_unchecked_refuted :
  let a := fst (reserve_range ra_init 1) in
  snd (window_unchecked Debug a 256) = WPanic /\
  (exists regs, snd (window_unchecked Release a 256) = WOk regs /\ In 0 regs /\ 0 < next a) /\
  snd (window_checked Debug a 256) = WLimit /\ snd (window_checked Release a 256) = WLimit.
Proof.
  vm_compute. repeat split; auto. eexists. split; [reflexivity|]. split; [|reflexivity].
  apply in_or_app with (l := map N.of_nat (seq 1 255)) (m := [0]). right. left. reflexivity.
Qed.

(* windows that are never released add up: 127 two-register windows fit, the
   128th is refused although it would fit on its own (known finding F2) *)
Lemma unreleased_windows_accumulate_refuted :
  let a := rexec rs_init (repeat (RReserve 2) 127) in
  snd (rstep a (RReserve 2)) = ErrLimit /\ snd (rstep rs_init (RReserve 2)) = Ok [0; 1].
Proof. vm_compute. split; reflexivity. Qed.
