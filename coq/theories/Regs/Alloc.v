(* Executable model of RegisterAllocator (src/compiler/builder.rs). u8 values
   are N with the bounds written out; Vec<u8> free_list is kept head = last
   pushed (Vec::pop takes the head). No proofs in this file. *)
From Coq Require Import List Bool NArith.
Import ListNotations.
Local Open Scope N_scope.

Record ralloc := mkRA { next : N; saved : list N; max_used : N; free_list : list N }.
Definition ra_init : ralloc := mkRA 0 [] 0 [].

Inductive res (A : Type) := Ok (a : A) | ErrLimit.
Arguments Ok {A} a.
Arguments ErrLimit {A}.

(* RegisterAllocator::alloc *)
Definition alloc (a : ralloc) : ralloc * res N :=
  match free_list a with
  | r :: fl => (mkRA (next a) (saved a) (max_used a) fl, Ok r)
  | [] =>
      if next a =? 255 then (a, ErrLimit)
      else (mkRA (next a + 1) (saved a) (N.max (max_used a) (next a + 1)) [], Ok (next a))
  end.

(* RegisterAllocator::free : r == self.next.saturating_sub(1) *)
Definition free (a : ralloc) (r : N) : ralloc :=
  if r =? (next a - 1) then mkRA r (saved a) (max_used a) (free_list a)
  else mkRA (next a) (saved a) (max_used a) (r :: free_list a).

(* RegisterAllocator::reserve_range(count: u8) : self.next.checked_add(count) *)
Definition reserve_range (a : ralloc) (count : N) : ralloc * res N :=
  if 255 <? next a + count then (a, ErrLimit)
  else (mkRA (next a + count) (saved a) (N.max (max_used a) (next a + count)) (free_list a), Ok (next a)).

Definition save (a : ralloc) : ralloc := mkRA (next a) (next a :: saved a) (max_used a) (free_list a).

Definition restore (a : ralloc) : ralloc :=
  match saved a with
  | pos :: sv => mkRA pos sv (max_used a) (filter (fun r => r <? pos) (free_list a))
  | [] => a
  end.

(* ---- operation sequences with the ghost set of registers in use ---- *)
Inductive rop := RAlloc | RFree (r : N) | RReserve (count : N) | RSave | RRestore.

Record rstate := mkRS { ra : ralloc; live : list N }.
Definition rs_init : rstate := mkRS ra_init [].

Definition range (start count : N) : list N := map (fun k => start + N.of_nat k) (seq 0 (N.to_nat count)).
Definition memN (r : N) (l : list N) : bool := existsb (N.eqb r) l.
Definition removeN (r : N) (l : list N) : list N := filter (fun x => negb (x =? r)) l.

(* the caller's discipline: only registers in use are freed; nothing allocated
   since the matching save is still in use at restore; counts are u8 *)
Definition disciplined (s : rstate) (o : rop) : bool :=
  match o with
  | RFree r => memN r (live s)
  | RReserve c => c <=? 255
  | RRestore => match saved (ra s) with
                | pos :: _ => forallb (fun r => r <? pos) (live s)
                | [] => true
                end
  | _ => true
  end.

(* returns the registers handed out by the operation *)
Definition rstep (s : rstate) (o : rop) : rstate * res (list N) :=
  match o with
  | RAlloc => match alloc (ra s) with
              | (a, Ok r) => (mkRS a (r :: live s), Ok [r])
              | (a, ErrLimit) => (mkRS a (live s), ErrLimit)
              end
  | RFree r => (mkRS (free (ra s) r) (removeN r (live s)), Ok [])
  | RReserve c => match reserve_range (ra s) c with
                  | (a, Ok st) => (mkRS a (range st c ++ live s), Ok (range st c))
                  | (a, ErrLimit) => (mkRS a (live s), ErrLimit)
                  end
  | RSave => (mkRS (save (ra s)) (live s), Ok [])
  | RRestore => (mkRS (restore (ra s)) (live s), Ok [])
  end.

Definition rexec (s : rstate) (os : list rop) : rstate := fold_left (fun s o => fst (rstep s o)) os s.
Definition all_disciplined (s : rstate) (os : list rop) : Prop :=
  forall pre o post, os = pre ++ o :: post -> disciplined (rexec s pre) o = true.

(* ---- register windows of the sized constructs ------------------------
   `let start = reserve_registers(n as u8)?; for i in 0..n { start + i as u8 }`
   (array literals, call/new arguments, template parts, tagged-template
   expressions) as the code stood at the pinned commit: the element count is
   narrowed before the limit check. *)
Inductive profile := Debug | Release.
Inductive wres := WOk (regs : list N) | WLimit | WPanic.

Definition as_u8 (n : N) : N := n mod 256.
Definition as_u16 (n : N) : N := n mod 65536.

Fixpoint window_regs (p : profile) (start : N) (n : nat) (i : N) : option (list N) :=
  match n with
  | O => Some []
  | S n' =>
      let r := start + as_u8 i in
      if 255 <? r then
        match p with
        | Debug => None                                   (* attempt to add with overflow *)
        | Release => option_map (cons (r mod 256)) (window_regs p start n' (i + 1))
        end
      else option_map (cons r) (window_regs p start n' (i + 1))
  end.

(* pinned-commit behaviour: narrowing first *)
Definition window_unchecked (p : profile) (a : ralloc) (n : N) : ralloc * wres :=
  match reserve_range a (as_u8 n) with
  | (a', ErrLimit) => (a', WLimit)
  | (a', Ok start) =>
      match window_regs p start (N.to_nat n) 0 with
      | Some regs => (a', WOk regs)
      | None => (a', WPanic)
      end
  end.

(* behaviour after the fix: explicit limit error before narrowing *)
Definition window_checked (p : profile) (a : ralloc) (n : N) : ralloc * wres :=
  if 255 <? n then (a, WLimit) else window_unchecked p a n.

(* a construct that takes `extra` single registers after its window
   (tagged templates allocate the `this` register after the expressions) *)
Fixpoint allocs (a : ralloc) (k : nat) : ralloc * bool :=
  match k with
  | O => (a, true)
  | S k' => match alloc a with
            | (a', Ok _) => allocs a' k'
            | (a', ErrLimit) => (a', false)
            end
  end.

Definition construct_window (p : profile) (a : ralloc) (n : N) (extra : nat) : ralloc * wres :=
  match window_checked p a n with
  | (a', WOk regs) => let '(a'', ok) := allocs a' extra in (a'', if ok then WOk regs else WLimit)
  | r => r
  end.
