From Coq Require Import List Bool NArith Lia FinFun.
From TsrunV Require Import Regs.Alloc.
Import ListNotations.
Local Open Scope N_scope.

Lemma memN_In r l : memN r l = true <-> In r l.
Proof.
  unfold memN. rewrite existsb_exists. split.
  - intros [x [Hx E]]. apply N.eqb_eq in E. subst; auto.
  - intros H. exists r. split; auto. apply N.eqb_refl.
Qed.

Lemma In_removeN x r l : In x (removeN r l) <-> In x l /\ x <> r.
Proof.
  unfold removeN. rewrite filter_In. rewrite negb_true_iff, N.eqb_neq. tauto.
Qed.

Lemma In_range x st c : In x (range st c) <-> st <= x < st + c.
Proof.
  unfold range. rewrite in_map_iff. split.
  - intros [k [E Hk]]. apply in_seq in Hk. lia.
  - intros H. exists (N.to_nat (x - st)). split; [lia|]. apply in_seq. lia.
Qed.

Lemma NoDup_range st c : NoDup (range st c).
Proof.
  unfold range. apply FinFun.Injective_map_NoDup; [|apply seq_NoDup].
  intros a b H. lia.
Qed.

Definition disjoint (a b : list N) : Prop := forall x, In x a -> ~ In x b.

Record inv (s : rstate) : Prop := {
  i_live_nd : NoDup (live s);
  i_fl_nd : NoDup (free_list (ra s));
  i_live_lt : Forall (fun r => r < next (ra s)) (live s);
  i_fl_lt : Forall (fun r => r < next (ra s)) (free_list (ra s));
  i_disj : disjoint (live s) (free_list (ra s));
  i_next : next (ra s) <= max_used (ra s);
  i_max : max_used (ra s) <= 255;
  i_saved : Forall (fun p => p <= max_used (ra s)) (saved (ra s))
}.

Lemma inv_init : inv rs_init.
Proof. constructor; simpl; try constructor; try lia. intros x []. Qed.

Lemma NoDup_app_mine (a b : list N) : NoDup a -> NoDup b -> (forall x, In x a -> In x b -> False) -> NoDup (a ++ b).
Proof.
  induction a as [|x a IH]; intros Na Nb D; simpl; auto.
  inversion Na; subst. constructor.
  - intros Hin. apply in_app_or in Hin as [Hin|Hin]; auto. apply (D x); simpl; auto.
  - apply IH; auto. intros y Hy. apply D. simpl; auto.
Qed.

Lemma Forall_lt_mono (l : list N) a b : a <= b -> Forall (fun r => r < a) l -> Forall (fun r => r < b) l.
Proof. intros H F. eapply Forall_impl; [|exact F]. simpl. intros; lia. Qed.

Theorem rstep_inv s o : inv s -> disciplined s o = true ->
  inv (fst (rstep s o)) /\
  match snd (rstep s o) with
  | Ok regs => NoDup regs /\ Forall (fun x => ~ In x (live s)) regs /\
               Forall (fun x => x < max_used (ra (fst (rstep s o)))) regs /\
               Forall (fun x => x < 255) regs
  | ErrLimit => fst (rstep s o) = s
  end.
Proof.
  intros [LN FN LL FL D NM MX SV] Hd. destruct s as [a lv]. simpl in *.
  destruct o as [|r|c| |]; simpl.
  - (* alloc *)
    unfold alloc. destruct (free_list a) as [|r fl] eqn:Ef; simpl.
    + destruct (N.eqb_spec (next a) 255) as [E|NE]; simpl.
      * split; [constructor; simpl; rewrite ?Ef; auto|]. reflexivity.
      * split.
        -- constructor; simpl; try lia.
           ++ constructor; auto. intros Hin. rewrite Forall_forall in LL. apply LL in Hin. lia.
           ++ constructor.
           ++ constructor; [lia|]. eapply Forall_lt_mono; [|exact LL]. lia.
           ++ constructor.
           ++ intros x _ [].
           ++ eapply Forall_impl; [|exact SV]. simpl. intros; lia.
        -- split; [constructor; [intros []|constructor]|].
           split; [constructor; [|constructor]; intros Hin; rewrite Forall_forall in LL; apply LL in Hin; lia|].
           split; (constructor; [lia|constructor]).
    + inversion FN as [|? ? Nr Nfl]; subst. inversion FL as [|? ? Lr Lfl]; subst.
      assert (Nlive : ~ In r lv) by (intros Hin; apply (D r Hin); left; auto).
      split.
      * constructor; simpl; auto.
        -- constructor; auto.
        -- intros x [<-|Hx]; auto. intros Hf. apply (D x Hx). right; auto.
      * split; [constructor; [intros []|constructor]|].
        split; [constructor; [exact Nlive|constructor]|].
        split; (constructor; [lia|constructor]).
  - (* free *)
    apply memN_In in Hd. split; [|repeat split; constructor].
    assert (Rlt : r < next a) by (rewrite Forall_forall in LL; auto).
    unfold free. destruct (N.eqb_spec r (next a - 1)) as [E|NE]; simpl.
    + constructor; simpl; auto; try lia.
      * apply NoDup_filter; auto.
      * rewrite Forall_forall in *. intros x Hx. apply In_removeN in Hx as [Hx Nx].
        specialize (LL x Hx). lia.
      * rewrite Forall_forall in *. intros x Hx. specialize (FL x Hx).
        assert (x <> r) by (intros ->; apply (D r Hd Hx)). lia.
      * intros x Hx. apply In_removeN in Hx as [Hx _]. auto.
    + constructor; simpl; auto.
      * apply NoDup_filter; auto.
      * constructor; auto.
      * rewrite Forall_forall in *. intros x Hx. apply In_removeN in Hx as [Hx _]. auto.
      * intros x Hx. apply In_removeN in Hx as [Hx Nx]. intros [<-|Hf]; [congruence|]. apply (D x Hx Hf).
  - (* reserve *)
    apply N.leb_le in Hd. unfold reserve_range.
    destruct (N.ltb_spec 255 (next a + c)) as [Ov|Fit]; simpl; [split; auto; constructor; auto|].
    split.
    + constructor; simpl; try lia.
      * apply NoDup_app_mine; auto using NoDup_range.
        intros x Hx Hl. apply In_range in Hx. rewrite Forall_forall in LL. specialize (LL x Hl). lia.
      * auto.
      * apply Forall_app. split.
        -- rewrite Forall_forall. intros x Hx. apply In_range in Hx. lia.
        -- eapply Forall_lt_mono; [|exact LL]. lia.
      * eapply Forall_lt_mono; [|exact FL]. lia.
      * intros x Hx Hf. apply in_app_or in Hx as [Hx|Hx]; [|apply (D x Hx Hf)].
        apply In_range in Hx. rewrite Forall_forall in FL. specialize (FL x Hf). lia.
      * eapply Forall_impl; [|exact SV]. simpl. intros; lia.
    + split; [apply NoDup_range|]. split; [|split]; rewrite Forall_forall; intros x Hx; apply In_range in Hx.
      * intros Hl. rewrite Forall_forall in LL. specialize (LL x Hl). lia.
      * lia.
      * lia.
  - (* save *)
    split; [|repeat split; constructor]. constructor; simpl; auto.
  - (* restore *)
    split; [|repeat split; constructor]. unfold restore.
    destruct (saved a) as [|pos sv] eqn:Es; simpl; [constructor; simpl; rewrite ?Es; auto|].
    inversion SV as [|? ? Ppos Psv]; subst. unfold disciplined in Hd. simpl in Hd. rewrite Es in Hd.
    constructor; simpl; auto; try lia.
    + apply NoDup_filter; auto.
    + rewrite forallb_forall in Hd. rewrite Forall_forall. intros x Hx. apply N.ltb_lt. auto.
    + rewrite Forall_forall. intros x Hx. apply filter_In in Hx as [_ Hx]. apply N.ltb_lt. auto.
    + intros x Hx Hf. apply filter_In in Hf as [Hf _]. apply (D x Hx Hf).
Qed.

Theorem rexec_inv os : forall s, inv s -> all_disciplined s os -> inv (rexec s os).
Proof.
  induction os as [|o os IH]; intros s I A; simpl; auto.
  apply IH.
  - apply rstep_inv; auto. apply (A [] o os). reflexivity.
  - intros pre o' post E. specialize (A (o :: pre) o' post). simpl in A. apply A. rewrite E. reflexivity.
Qed.

(* every register ever handed out along a disciplined sequence is fresh w.r.t.
   the registers then in use, and below max_used <= 255 *)
Theorem alloc_no_alias_lemma os o : all_disciplined rs_init (os ++ [o]) ->
  let s := rexec rs_init os in
  inv s /\
  match snd (rstep s o) with
  | Ok regs => NoDup regs /\ Forall (fun x => ~ In x (live s)) regs /\
               Forall (fun x => x < max_used (ra (fst (rstep s o)))) regs /\ Forall (fun x => x < 255) regs
  | ErrLimit => fst (rstep s o) = s
  end.
Proof.
  intros A. simpl.
  assert (I : inv (rexec rs_init os)).
  { apply rexec_inv; [apply inv_init|]. intros pre o' post E. apply (A pre o' (post ++ [o])).
    rewrite E. rewrite <- app_assoc. reflexivity. }
  split; auto. apply rstep_inv; auto. apply (A os o []). reflexivity.
Qed.
