(* C05: why the front end always comes back.
   (1) A scanner whose every step consumes at least one character produces at
       most as many tokens as there are characters.
   (2) Recursion: the parser is a set of mutually recursive functions. Some of
       them are guarded: they count their nesting and refuse to go beyond a
       limit. If every cycle of the call graph passes through a guarded
       function, the part of the graph without guarded functions is acyclic
       and has a rank function that strictly decreases along its edges; then
       every call chain with at most K guarded calls on it is at most
       (R + 2) * (K + 1) long, R the largest rank.
   No proofs in this file. *)
From Coq Require Import List Arith Bool.
Import ListNotations.

(* ---- (1) scanning ---- *)
Section Scan.
  Variable A Tok : Type.
  Variable step : list A -> option (Tok * list A).      (* None: end of input or error *)

  Fixpoint scan (fuel : nat) (s : list A) : list Tok :=
    match fuel with
    | O => []
    | S f => match step s with
             | Some (t, r) => t :: scan f r
             | None => []
             end
    end.
  Definition progresses : Prop := forall s t r, step s = Some (t, r) -> length r < length s.
End Scan.

(* ---- (2) call chains ---- *)
Section Calls.
  Variable guarded : nat -> bool.
  Variable rank : nat -> nat.
  Variable edges : list (nat * nat).

  Definition edge (a b : nat) : bool := existsb (fun e => Nat.eqb (fst e) a && Nat.eqb (snd e) b) edges.

  (* a call chain: the frames on the native stack, outermost first *)
  Fixpoint chain (p : list nat) : bool :=
    match p with
    | a :: ((b :: _) as r) => edge a b && chain r
    | _ => true
    end.

  Definition guarded_calls (p : list nat) : nat := length (filter guarded p).

  (* the decidable condition on the regenerated graph: an edge between two unguarded functions lowers the rank *)
  Definition rank_ok : bool :=
    forallb (fun e => guarded (fst e) || guarded (snd e) || Nat.ltb (rank (snd e)) (rank (fst e))) edges.
  Definition ranks_below (R : nat) : bool := forallb (fun e => Nat.leb (rank (fst e)) R && Nat.leb (rank (snd e)) R) edges.
End Calls.
