From Coq Require Import List Arith Bool Lia.
From TsrunV Require Import Front.Model.
Import ListNotations.

Section ScanP.
  Variable A Tok : Type.
  Variable step : list A -> option (Tok * list A).
  Hypothesis H : progresses A Tok step.

  Theorem tokens_bounded : forall fuel s, length (scan A Tok step fuel s) <= length s.
  Proof.
    induction fuel as [|f IH]; intros s; cbn; [lia|].
    destruct (step s) as [[t r]|] eqn:E; cbn; [|lia].
    specialize (H _ _ _ E). specialize (IH r). lia.
  Qed.

End ScanP.

Section CallsP.
  Variable guarded : nat -> bool.
  Variable rank : nat -> nat.
  Variable edges : list (nat * nat).
  Variable R : nat.
  Hypothesis Hrank : rank_ok guarded rank edges = true.
  Hypothesis Hbelow : ranks_below rank edges R = true.

  Lemma edge_in a b : edge edges a b = true -> In (a, b) edges.
  Proof.
    unfold edge. rewrite existsb_exists. intros [[x y] [Hin Heq]]. cbn in Heq.
    apply andb_true_iff in Heq. destruct Heq as [E1 E2].
    apply Nat.eqb_eq in E1, E2. now subst.
  Qed.

  Lemma edge_rank a b : edge edges a b = true -> guarded a = false -> guarded b = false -> rank b < rank a.
  Proof.
    intros He Ga Gb. apply edge_in in He. unfold rank_ok in Hrank. rewrite forallb_forall in Hrank.
    specialize (Hrank _ He). cbn in Hrank. rewrite Ga, Gb in Hrank. cbn in Hrank. now apply Nat.ltb_lt.
  Qed.

  Lemma edge_below a b : edge edges a b = true -> rank a <= R /\ rank b <= R.
  Proof.
    intros He. apply edge_in in He. unfold ranks_below in Hbelow. rewrite forallb_forall in Hbelow.
    specialize (Hbelow _ He). cbn in Hbelow. apply andb_true_iff in Hbelow.
    destruct Hbelow as [A B]. apply Nat.leb_le in A, B. auto.
  Qed.

  Definition head_budget (a : nat) : nat := if guarded a then R + 2 else rank a + 1.

  Lemma chain_length : forall p a, chain edges (a :: p) = true ->
    length (a :: p) <= head_budget a + guarded_calls guarded p * (R + 2).
  Proof.
    induction p as [|b r IH]; intros a Hc.
    - cbn. unfold head_budget. destruct (guarded a); lia.
    - cbn [chain] in Hc. apply andb_true_iff in Hc. destruct Hc as [He Hr].
      specialize (IH b Hr). cbn [length] in *. unfold guarded_calls in *. cbn [filter].
      unfold head_budget in *. destruct (edge_below _ _ He) as [Ra Rb].
      destruct (guarded b) eqn:Gb; cbn [length].
      + destruct (guarded a); lia.
      + destruct (guarded a) eqn:Ga; [lia|]. pose proof (edge_rank _ _ He Ga Gb). lia.
  Qed.

  (* the depth of the native stack is bounded by the number of guarded calls on it *)
  Theorem call_depth_bounded : forall p K, chain edges p = true -> guarded_calls guarded p <= K ->
    length p <= (R + 2) * (K + 1).
  Proof.
    intros [|a [|b r]] K Hc Hk; [cbn; lia|cbn; nia|].
    assert (Ra : rank a <= R).
    { cbn [chain] in Hc. apply andb_true_iff in Hc. destruct Hc as [He _]. now destruct (edge_below _ _ He). }
    pose proof (chain_length (b :: r) a Hc) as H.
    remember (b :: r) as q eqn:Eq. clear Eq Hc.
    unfold guarded_calls in *. cbn [filter] in Hk. unfold head_budget in H.
    destruct (guarded a) eqn:Ga; cbn [length] in *.
    - assert (length (filter guarded q) * (R + 2) + (R + 2) <= K * (R + 2)) by nia. nia.
    - assert (length (filter guarded q) * (R + 2) <= K * (R + 2)) by nia. nia.
  Qed.
End CallsP.
