(* C05 -- every source text is accepted or rejected cleanly, in bounded time. Only statements. *)
From Coq Require Import List String Arith Bool.
From TsrunV Require Import Front.Model Front.Proofs Generated.FactsC05.
Import ListNotations.

(* A scanner that consumes at least one character per token produces at most
   as many tokens as the input has characters (Lexer::next_token advances or
   reports the end; checked on the implementation by the lexer_tokens hook). *)
Theorem c05_tokens_bounded_by_input : forall (A Tok : Type) (step : list A -> option (Tok * list A)),
  progresses A Tok step -> forall fuel s, List.length (scan A Tok step fuel s) <= List.length s.
Proof. exact tokens_bounded. Qed.
Print Assumptions c05_tokens_bounded_by_input.

(* For every call graph with a rank that decreases along edges between
   unguarded functions: a call chain with at most K guarded calls on it has
   at most (R + 2) * (K + 1) frames. *)
Theorem c05_call_depth_bounded : forall (guarded : nat -> bool) (rank : nat -> nat) (edges : list (nat * nat)) (R : nat),
  rank_ok guarded rank edges = true -> ranks_below rank edges R = true ->
  forall p K, chain edges p = true -> guarded_calls guarded p <= K -> List.length p <= (R + 2) * (K + 1).
Proof. exact call_depth_bounded. Qed.
Print Assumptions c05_call_depth_bounded.

(* The parser of the current source is such a graph (regenerated on every run):
   with its guarded entry points removed, the call graph of src/parser.rs is
   acyclic - the regenerated ranks decrease along every remaining edge. *)
Definition is_guarded (n : nat) : bool := existsb (Nat.eqb n) parser_guarded_ids.
Definition rank_of (n : nat) : nat := nth n parser_ranks 0.

Theorem c05_parser_recursion_is_guarded :
  rank_ok is_guarded rank_of parser_edges = true /\ ranks_below rank_of parser_edges 32 = true /\
  parser_unguarded_cycles = [].
Proof. vm_compute. repeat split. Qed.
Print Assumptions c05_parser_recursion_is_guarded.

(* hence: no call chain inside the parser with at most 1024 guarded frames (MAX_NESTING) is longer than 34 * 1025 frames *)
Theorem c05_parser_stack_is_bounded : forall p, chain parser_edges p = true ->
  guarded_calls is_guarded p <= 1024 -> List.length p <= 34 * 1025.
Proof.
  intros p Hc Hk.
  destruct c05_parser_recursion_is_guarded as (H1 & H2 & _).
  exact (call_depth_bounded is_guarded rank_of parser_edges 32 H1 H2 p 1024 Hc Hk).
Qed.
Print Assumptions c05_parser_stack_is_bounded.

Theorem c05_parser_limit_is_the_one_proved : parser_limits = ["MAX_NESTING=1024"; "functions=102"; "max_rank=11"]%string.
Proof. reflexivity. Qed.
Print Assumptions c05_parser_limit_is_the_one_proved.
