(* C05 -- every source text is accepted or rejected cleanly, in bounded time. Only statements. *)
From Coq Require Import List String Arith Bool.
From TsrunV Require Import Front.Model Front.Proofs Front.Height Front.HeightProofs Generated.FactsC05.
Import ListNotations.

(* A scanner that consumes at least one character per token produces at most
   as many tokens as the input has characters (Lexer::next_token advances or
   reports the end; checked on the implementation by the lexer_tokens hook). *)
Theorem c05_tokens_bounded_by_input : forall (A Tok : Type) (step : list A -> option (Tok * list A)),
  progresses A Tok step -> forall fuel s, List.length (scan A Tok step fuel s) <= List.length s.
Proof. exact tokens_bounded. Qed.
Print Assumptions c05_tokens_bounded_by_input.

(* For every call graph with a rank that decreases along edges between
   unguarded functions: a call chain with at most K guarded calls on it has
   at most (R + 2) * (K + 1) frames. *)
Theorem c05_call_depth_bounded : forall (guarded : nat -> bool) (rank : nat -> nat) (edges : list (nat * nat)) (R : nat),
  rank_ok guarded rank edges = true -> ranks_below rank edges R = true ->
  forall p K, chain edges p = true -> guarded_calls guarded p <= K -> List.length p <= (R + 2) * (K + 1).
Proof. exact call_depth_bounded. Qed.
Print Assumptions c05_call_depth_bounded.

(* The parser of the current source is such a graph (regenerated on every run):
   with its guarded entry points removed, the call graph of src/parser.rs is
   acyclic - the regenerated ranks decrease along every remaining edge. *)
Definition is_guarded (n : nat) : bool := existsb (Nat.eqb n) parser_guarded_ids.
Definition rank_of (n : nat) : nat := nth n parser_ranks 0.

Theorem c05_parser_recursion_is_guarded :
  rank_ok is_guarded rank_of parser_edges = true /\ ranks_below rank_of parser_edges 32 = true /\
  parser_unguarded_cycles = [].
Proof. vm_compute. repeat split. Qed.
Print Assumptions c05_parser_recursion_is_guarded.

(* hence: no call chain inside the parser with at most 1024 guarded frames (MAX_NESTING) is longer than 34 * 1025 frames *)
Theorem c05_parser_stack_is_bounded : forall p, chain parser_edges p = true ->
  guarded_calls is_guarded p <= 1024 -> List.length p <= 34 * 1025.
Proof.
  intros p Hc Hk.
  destruct c05_parser_recursion_is_guarded as (H1 & H2 & _).
  exact (call_depth_bounded is_guarded rank_of parser_edges 32 H1 H2 p 1024 Hc Hk).
Qed.
Print Assumptions c05_parser_stack_is_bounded.

Theorem c05_parser_limit_is_the_one_proved : parser_limits = ["MAX_NESTING=1024"; "functions=102"; "max_rank=11"]%string.
Proof. reflexivity. Qed.
Print Assumptions c05_parser_limit_is_the_one_proved.

(* The height of the tree. Whatever sequence of recursive steps, completed
   sub-trees and loop-built links produced it: if the parser accepted it (no
   link pushed the tracked height above the limit, no recursion went deeper
   than the limit), the tree is at most K * 2 * limit levels tall, K being the
   number of levels one recursive step can add by itself. Everything that walks
   the tree afterwards (the compiler, Drop) recurses at most that deep. *)
Theorem c05_tree_height_is_bounded : forall K limit, 1 <= K -> forall f,
  accepted limit f = true -> depth f <= limit -> real K f <= K * (2 * limit).
Proof. exact height_bounded. Qed.
Print Assumptions c05_tree_height_is_bounded.

(* ... and every loop of the current parser that wraps what it has built so far
   into a new node accounts for the level it adds (regenerated on every run) *)
Theorem c05_every_wrapping_loop_is_accounted :
  parser_wrapping_loops_without_link = [] /\ parser_wrapping_loops = ["count=15"]%string.
Proof. split; reflexivity. Qed.
Print Assumptions c05_every_wrapping_loop_is_accounted.

(* non-vacuity: `(a.b.b + c) as T`-like: links, a child with links of its own; accepted at limit 8, refused at limit 2 *)
Theorem c05_height_witness :
  let f := Frame [Child (Frame [Link; Link; Child (Frame [Link])]); Link; Child (Frame []); Link] in
  accepted 8 f = true /\ accepted 2 f = false /\ tracked f = 6 /\ real 3 f = 12 /\ depth f = 3.
Proof. vm_compute. repeat split. Qed.
Print Assumptions c05_height_witness.
