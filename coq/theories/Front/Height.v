(* C05-M3: the height of the tree the parser builds. A recursive step of the
   parser (Parser::nested) is a frame; inside it, sub-trees are completed by
   nested frames (Child) and loops wrap what has been built so far into a new
   node (Link: `a + a`, `a.b`, `f()`, `x as T`, `T[]`, ...). The parser tracks a
   height: a link adds one, a completed child raises it to the child's height,
   a frame is one taller than what it contains; a link is refused once the
   height would exceed the limit. The real tree differs only in that a frame
   may build up to K levels of its own (a constant of the parser's code).
   No proofs here. *)
From Coq Require Import List Arith Bool.
Import ListNotations.

Inductive frame := Frame (events : list ev)
with ev := Child (f : frame) | Link.

Section Height.
  Variable K : nat.      (* levels a frame may add on its own, besides links *)

  Fixpoint tracked (f : frame) : nat :=
    match f with
    | Frame evs =>
        S ((fix go (l : list ev) (h : nat) : nat :=
              match l with
              | [] => h
              | Child c :: r => go r (Nat.max h (tracked c))
              | Link :: r => go r (S h)
              end) evs 0)
    end.

  Fixpoint real (f : frame) : nat :=
    match f with
    | Frame evs =>
        K + ((fix go (l : list ev) (h : nat) : nat :=
                match l with
                | [] => h
                | Child c :: r => go r (Nat.max h (real c))
                | Link :: r => go r (S h)
                end) evs 0)
    end.

  (* Parser::link refuses a link that would push the tracked height above the limit *)
  Fixpoint accepted (limit : nat) (f : frame) : bool :=
    match f with
    | Frame evs =>
        (fix go (l : list ev) (h : nat) : bool :=
           match l with
           | [] => true
           | Child c :: r => accepted limit c && go r (Nat.max h (tracked c))
           | Link :: r => (S h <=? limit) && go r (S h)
           end) evs 0
    end.

  Fixpoint depth (f : frame) : nat :=
    match f with
    | Frame evs =>
        S ((fix go (l : list ev) : nat :=
              match l with
              | [] => 0
              | Child c :: r => Nat.max (depth c) (go r)
              | Link :: r => go r
              end) evs)
    end.
End Height.
