From Coq Require Import List Arith Bool Lia.
From TsrunV Require Import Front.Height.
Import ListNotations.

(* the inner loops, named *)
Fixpoint go_tracked (l : list ev) (h : nat) : nat :=
  match l with
  | [] => h
  | Child c :: r => go_tracked r (Nat.max h (tracked c))
  | Link :: r => go_tracked r (S h)
  end.
Fixpoint go_real (K : nat) (l : list ev) (h : nat) : nat :=
  match l with
  | [] => h
  | Child c :: r => go_real K r (Nat.max h (real K c))
  | Link :: r => go_real K r (S h)
  end.
Fixpoint go_accepted (limit : nat) (l : list ev) (h : nat) : bool :=
  match l with
  | [] => true
  | Child c :: r => accepted limit c && go_accepted limit r (Nat.max h (tracked c))
  | Link :: r => (S h <=? limit) && go_accepted limit r (S h)
  end.
Fixpoint go_depth (l : list ev) : nat :=
  match l with
  | [] => 0
  | Child c :: r => Nat.max (depth c) (go_depth r)
  | Link :: r => go_depth r
  end.

Lemma tracked_unfold evs : tracked (Frame evs) = S (go_tracked evs 0).
Proof. reflexivity. Qed.
Lemma real_unfold K evs : real K (Frame evs) = K + go_real K evs 0.
Proof.
  cbn [real]. f_equal. generalize 0. induction evs as [|[c|] r IH]; intros h; cbn [go_real]; [reflexivity|apply IH|apply IH].
Qed.
Lemma accepted_unfold limit evs : accepted limit (Frame evs) = go_accepted limit evs 0.
Proof.
  cbn [accepted]. generalize 0. induction evs as [|[c|] r IH]; intros h; cbn [go_accepted]; [reflexivity|rewrite IH; reflexivity|rewrite IH; reflexivity].
Qed.
Lemma depth_unfold evs : depth (Frame evs) = S (go_depth evs).
Proof. reflexivity. Qed.

(* induction principle for the nested type *)
Fixpoint frame_ind2 (P : frame -> Prop)
         (H : forall evs, (forall c, In (Child c) evs -> P c) -> P (Frame evs)) (f : frame) : P f :=
  match f with
  | Frame evs =>
      H evs ((fix all (l : list ev) : forall c, In (Child c) l -> P c :=
                match l with
                | [] => fun c (i : In (Child c) []) => match i with end
                | e :: r => fun c (i : In (Child c) (e :: r)) =>
                    match i with
                    | or_introl eq => match e as e0 return e0 = Child c -> P c with
                                      | Child c0 => fun q => match q in _ = y return (match y with Child c1 => P c1 | Link => True end) with
                                                             | eq_refl => frame_ind2 P H c0 end
                                      | Link => fun q => match q in _ = y return (match y with Child c1 => P c1 | Link => True end) with
                                                         | eq_refl => I end
                                      end eq
                    | or_intror i' => all r c i'
                    end
                end) evs)
  end.

Lemma real_le_tracked K : 1 <= K -> forall f, real K f <= K * tracked f.
Proof.
  intros HK. induction f as [evs IH] using frame_ind2.
  rewrite real_unfold, tracked_unfold.
  assert (G : forall l hr ht, (forall c, In (Child c) l -> real K c <= K * tracked c) ->
                              hr <= K * ht -> go_real K l hr <= K * go_tracked l ht).
  { induction l as [|[c|] r IHl]; intros hr ht Hc Hh; cbn [go_real go_tracked].
    - exact Hh.
    - apply IHl; [intros c0 Hi; apply Hc; right; exact Hi|].
      specialize (Hc c (or_introl eq_refl)). nia.
    - apply IHl; [intros c0 Hi; apply Hc; right; exact Hi|]. nia. }
  specialize (G evs 0 0 IH). nia.
Qed.

Lemma tracked_bounded limit : forall f, accepted limit f = true -> tracked f <= limit + depth f.
Proof.
  induction f as [evs IH] using frame_ind2. rewrite accepted_unfold, tracked_unfold, depth_unfold.
  assert (G : forall l h d, (forall c, In (Child c) l -> accepted limit c = true -> tracked c <= limit + depth c) ->
                            go_accepted limit l h = true -> h <= limit + d ->
                            go_tracked l h <= limit + Nat.max d (go_depth l)).
  { induction l as [|[c|] r IHl]; intros h d Hc Ha Hh; cbn [go_accepted go_tracked go_depth] in *.
    - lia.
    - apply andb_prop in Ha. destruct Ha as [Ha1 Ha2].
      pose proof (Hc c (or_introl eq_refl) Ha1) as Hb.
      assert (Hr : forall c0, In (Child c0) r -> accepted limit c0 = true -> tracked c0 <= limit + depth c0)
        by (intros c0 Hi; apply Hc; right; exact Hi).
      specialize (IHl (Nat.max h (tracked c)) (Nat.max d (depth c)) Hr Ha2). lia.
    - apply andb_prop in Ha. destruct Ha as [Ha1 Ha2]. apply Nat.leb_le in Ha1.
      assert (Hr : forall c0, In (Child c0) r -> accepted limit c0 = true -> tracked c0 <= limit + depth c0)
        by (intros c0 Hi; apply Hc; right; exact Hi).
      specialize (IHl (S h) d Hr Ha2). lia. }
  intros Ha. specialize (G evs 0 0 IH Ha). lia.
Qed.

Theorem height_bounded K limit : 1 <= K -> forall f,
    accepted limit f = true -> depth f <= limit -> real K f <= K * (2 * limit).
Proof.
  intros HK f Ha Hd. pose proof (real_le_tracked K HK f). pose proof (tracked_bounded limit f Ha). nia.
Qed.
