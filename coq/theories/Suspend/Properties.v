(* C07 -- suspending and resuming is transparent to the program.
   Only statements; each is closed by a lemma proved elsewhere. *)
From Coq Require Import List String Bool NArith ZArith.
From TsrunV Require Import Host.Ledger Suspend.Model Suspend.Proofs Suspend.Schedule Suspend.ScheduleProofs
  Generated.FactsC07 Suspend.Tables Suspend.Witness.
Import ListNotations.
Local Open Scope string_scope.

(* Every field of the running frame that holds program state (all fields of
   BytecodeVM in the current source except roots and allocation pools) has,
   after from_saved_state (save_state vm), the value it had in vm. The field
   list and the copy tables are read from the source on every run. *)
Theorem c07_running_frame_survives : forall (V : Type) (blank : V) (m : vm V) (f : string),
  In f (minus fields_BytecodeVM scratch_top) ->
  top V (restore_vm blank (save_vm blank m)) f = top V m f.
Proof. exact running_frame_survives. Qed.
Print Assumptions c07_running_frame_survives.

(* The enclosing call chain: every caller frame comes back, in order, with
   every field except its register root. *)
Theorem c07_caller_frames_survive : forall (V : Type) (blank : V) (m : vm V),
  List.length (callers V (restore_vm blank (save_vm blank m))) = List.length (callers V m) /\
  forall i fr fr', nth_error (callers V m) i = Some fr ->
    nth_error (callers V (restore_vm blank (save_vm blank m))) i = Some fr' ->
    forall f, In f (minus fields_TrampolineFrame scratch_frame) -> fr' f = fr f.
Proof. exact caller_frames_survive. Qed.
Print Assumptions c07_caller_frames_survive.

(* The named pieces of state of the property are among those fields. *)
Theorem c07_covers_named_state :
  In "this_value" top_fields /\ In "pending_completion" top_fields /\
  In "saved_env_stack" top_fields /\ In "exception_value" top_fields /\ In "registers" top_fields /\
  In "try_stack" top_fields /\ In "call_stack" top_fields /\ In "ip" top_fields /\ List.length top_fields = 12.
Proof. exact top_fields_nonempty. Qed.
Print Assumptions c07_covers_named_state.

(* Schedule independence (model of Interpreter::step's resume logic,
   Host.Ledger): whatever the host does -- extra steps, early, late, repeated,
   batched or reordered answers -- a run that completes has seen exactly what
   the same program sees when every order is answered on the spot. *)
Theorem c07_schedule_independent : forall (orc : N -> Z) (p : list pev) (acts : list haction),
  no_cancel p = true -> honest orc acts ->
  forall l, In l (completions (snd (hrun p acts))) -> l = sync_result orc p.
Proof. exact schedule_independent. Qed.
Print Assumptions c07_schedule_independent.

Theorem c07_schedule_witness :
  completions (snd (hrun prog1 eager)) = [sync_result orc prog1] /\
  completions (snd (hrun prog1 lazy_reversed)) = [sync_result orc prog1] /\
  completions (snd (hrun prog1 batched)) = [sync_result orc prog1] /\
  sync_result orc prog1 = [SVal 20%Z; SVal 30%Z; SVal 10%Z; SId 4%N] /\
  no_cancel prog1 = true.
Proof. exact schedules_complete. Qed.
Print Assumptions c07_schedule_witness.

(* Known finding Y1: a generator's yield is not transparent -- the generator
   object keeps ip, registers, call frames and handlers only. *)
Theorem c07_generator_yield_refuted :
  generator_lost = ["exception_value"; "saved_env_stack"; "new_target"; "current_constructor"; "pending_completion"].
Proof. exact generator_lost_is. Qed.
Print Assumptions c07_generator_yield_refuted.

(* The source before fix 66c9150 lost five fields of the running frame. *)
Theorem c07_prefix_refuted :
  filter (fun f => negb (carried flow_save_state_SavedVmState prefix_restore_top "vm" "state" f)) top_fields =
  ["this_value"; "exception_value"; "saved_env_stack"; "current_constructor"; "pending_completion"].
Proof. exact prefix_lost. Qed.
Print Assumptions c07_prefix_refuted.
