(* The tables regenerated from /repo's current source satisfy the decidable
   conditions of Suspend.Proofs: checked by computation on every run. *)
From Coq Require Import List String Bool.
From TsrunV Require Import Suspend.Model Suspend.Proofs Generated.FactsC07.
Import ListNotations.
Local Open Scope string_scope.

Definition top_fields : list string := minus fields_BytecodeVM scratch_top.
Definition frame_fields : list string := minus fields_TrampolineFrame scratch_frame.

Definition save_vm {V} (blank : V) := save V blank flow_save_state_SavedVmState flow_save_state_SavedTrampolineFrame.
Definition restore_vm {V} (blank : V) := restore V blank flow_from_saved_state_Self flow_from_saved_state_TrampolineFrame.

Lemma top_fields_nonempty : In "this_value" top_fields /\ In "pending_completion" top_fields /\
  In "saved_env_stack" top_fields /\ In "exception_value" top_fields /\ In "registers" top_fields /\
  In "try_stack" top_fields /\ In "call_stack" top_fields /\ In "ip" top_fields /\ List.length top_fields = 12.
Proof. vm_compute. intuition. Qed.

Lemma frame_fields_nonempty : In "this_value" frame_fields /\ In "pending_completion" frame_fields /\
  In "try_stack" frame_fields /\ In "saved_interp_env" frame_fields /\ List.length frame_fields = 16.
Proof. vm_compute. intuition. Qed.

Lemma running_frame_survives : forall (V : Type) (blank : V) (m : vm V) (f : string),
  In f top_fields -> top V (restore_vm blank (save_vm blank m)) f = top V m f.
Proof.
  intros V blank m f Hf. unfold restore_vm, save_vm.
  apply top_roundtrip with (fields := top_fields); [vm_compute; reflexivity | exact Hf].
Qed.

Lemma caller_frames_survive : forall (V : Type) (blank : V) (m : vm V),
  List.length (callers V (restore_vm blank (save_vm blank m))) = List.length (callers V m) /\
  forall i fr fr', nth_error (callers V m) i = Some fr ->
    nth_error (callers V (restore_vm blank (save_vm blank m))) i = Some fr' ->
    forall f, In f frame_fields -> fr' f = fr f.
Proof.
  intros V blank m. unfold restore_vm, save_vm.
  apply callers_roundtrip; vm_compute; reflexivity.
Qed.

(* the generator path: which fields of the running frame do not come back *)
Definition generator_lost : list string :=
  filter (fun f => negb (gen_carried flow_save_state_SavedVmState flow_from_saved_state_Self
                                     flow_generator_store flow_generator_resume f)) top_fields.

Lemma generator_lost_is :
  generator_lost = ["exception_value"; "saved_env_stack"; "new_target"; "current_constructor"; "pending_completion"].
Proof. vm_compute. reflexivity. Qed.

Lemma generator_yield_not_transparent :
  exists f, In f top_fields /\
    gen_carried flow_save_state_SavedVmState flow_from_saved_state_Self flow_generator_store flow_generator_resume f = false.
Proof. exists "saved_env_stack". vm_compute. intuition. Qed.
