From Coq Require Import List Bool NArith ZArith Lia.
From TsrunV Require Import Host.Ledger Host.LedgerProofs Suspend.Schedule.
Import ListNotations.
Local Open Scope N_scope.
Local Arguments run !fuel s.

Section P.
  Variable orc : N -> Z.
  Notation final := (final orc).
  Notation honest_resp := (honest_resp orc).

  Lemma lookup_remove_other {A} id k (l : list (N * A)) r :
    lookup k (remove_id id l) = Some r -> lookup k l = Some r.
  Proof.
    induction l as [|[j x] l IH]; cbn; [discriminate|].
    destruct (j =? id) eqn:E1.
    - intros H. destruct (j =? k) eqn:E2; [|exact (IH H)].
      apply N.eqb_eq in E1, E2. subst. rewrite lookup_remove_id in H. discriminate.
    - cbn. destruct (j =? k); auto.
  Qed.

  Lemma honest_remove id l : honest_resp l -> honest_resp (remove_id id l).
  Proof. intros H k r Hk. apply H. eapply lookup_remove_other; eauto. Qed.

  Lemma honest_insert l id r : honest_resp l -> r = ROk (orc id) -> honest_resp (insert_resp l (id, r)).
  Proof.
    intros H -> k r0 Hk. unfold insert_resp in Hk. cbn in Hk.
    destruct (id =? k) eqn:E.
    - apply N.eqb_eq in E. subst. now injection Hk as <-.
    - apply H. eapply lookup_remove_other; eauto.
  Qed.

  Lemma honest_fold rs : forall l, honest_resp l -> (forall id r, In (id, r) rs -> r = ROk (orc id)) ->
    honest_resp (fold_left insert_resp rs l).
  Proof.
    induction rs as [|[id r] rs IH]; cbn; intros l Hl Hrs; [exact Hl|].
    apply IH; [apply honest_insert; auto|]; intros; apply Hrs; auto.
  Qed.

  (* running the VM to its next suspension does not change where the program is heading *)
  Lemma run_final : forall fuel s, susp s = None -> no_cancel (prog s) = true ->
    (List.length (prog s) < fuel)%nat ->
    (forall l, snd (run fuel s) = OComplete l -> l = final s) /\
    (running (fst (run fuel s)) = true ->
       final (fst (run fuel s)) = final s /\ no_cancel (prog (fst (run fuel s))) = true) /\
    responses (fst (run fuel s)) = responses s.
  Proof.
    induction fuel as [|fuel IH]; intros s Hs Hn Hf; [lia|].
    destruct s as [nid pend canc rsp sp pr mk lg rn iss]. cbn in Hs, Hn, Hf. subst sp.
    destruct pr as [|e r].
    - cbn. destruct pend; cbn; (split; [|split]); try discriminate; try reflexivity.
      intros l H. now injection H as <-.
    - destruct e as [p t|p|j t|id|]; cbn in Hn; try discriminate.
      + cbn. split; [discriminate|]. split; [|reflexivity]. intros _. split; [reflexivity|exact Hn].
      + cbn [run prog]. match goal with |- context [run fuel ?x] => specialize (IH x eq_refl Hn) end.
        cbn in IH. destruct IH as (I1 & I2 & I3); [cbn in Hf; lia|]. unfold Schedule.final in *; cbn [susp prog next_id markers log sync_run] in *.
        split; [exact I1|]. split; [exact I2|exact I3].
      + cbn [run prog markers]. destruct (nth_error mk j) as [id|] eqn:E.
        * cbn. rewrite E. split; [discriminate|]. split; [|reflexivity]. intros _. split; [reflexivity|exact Hn].
        * match goal with |- context [run fuel ?x] => specialize (IH x eq_refl Hn) end.
          cbn in IH. destruct IH as (I1 & I2 & I3); [cbn in Hf; lia|].
          unfold Schedule.final in *; cbn [susp prog next_id markers log sync_run] in *. rewrite E.
          split; [exact I1|]. split; [exact I2|exact I3].
      + cbn [run prog]. match goal with |- context [run fuel ?x] => specialize (IH x eq_refl Hn) end.
        cbn in IH. destruct IH as (I1 & I2 & I3); [cbn in Hf; lia|]. unfold Schedule.final in *; cbn [susp prog next_id markers log sync_run] in *.
        split; [exact I1|]. split; [exact I2|exact I3].
  Qed.

  Definition Inv (F : list seen) (s : st) : Prop :=
    (running s = true -> no_cancel (prog s) = true /\ final s = F) /\ honest_resp (responses s).

  Lemma hstep_inv F s a : Inv F s ->
    (match a with HFulfil rs => forall id r, In (id, r) rs -> r = ROk (orc id) | HStep => True end) ->
    Inv F (fst (hstep s a)) /\ (forall l, snd (hstep s a) = Some (OComplete l) -> l = F).
  Proof.
    intros [HR HH] Ha. destruct a as [|rs].
    - cbn [hstep]. destruct (running s) eqn:Rn; cbn [negb].
      2:{ cbn. split; [split; [rewrite Rn; discriminate|exact HH]|discriminate]. }
      destruct (HR eq_refl) as [Hn HF].
      destruct (susp s) as [[id t]|] eqn:Sp.
      + destruct (lookup id (responses s)) as [[v|]|] eqn:L.
        * pose proof (HH _ _ L) as Hv. injection Hv as ->.
          match goal with |- context [run _ ?x] => pose proof (run_final (S (List.length (prog s))) x eq_refl Hn) as R end.
          cbn [prog] in R. destruct R as (R1 & R2 & R3); [lia|].
          match goal with |- context [run ?f ?x] => destruct (run f x) as [s' o] eqn:Er end.
          cbn [fst snd] in *. unfold Schedule.final in R1, R2 at 2. cbn [susp prog next_id markers log] in R1, R2.
          unfold Schedule.final in HF. rewrite Sp in HF.
          split.
          -- split.
             ++ intros Rn'. destruct (R2 Rn') as [A B]. split; [exact B|]. rewrite A. exact HF.
             ++ rewrite R3. cbn. now apply honest_remove.
          -- intros l Hl. injection Hl as ->. rewrite (R1 _ eq_refl). exact HF.
        * pose proof (HH _ _ L) as Hv. discriminate.
        * cbn. split; [|discriminate]. split; [|exact HH].
          intros _. split; [exact Hn|]. unfold Schedule.final in *. cbn. rewrite Sp in HF. exact HF.
      + match goal with |- context [run _ ?x] => pose proof (run_final (S (List.length (prog s))) x Sp Hn) as R end.
        destruct R as (R1 & R2 & R3); [lia|].
        destruct (run (S (List.length (prog s))) s) as [s' o] eqn:Er. cbn [fst snd] in *.
        split.
        * split.
          -- intros Rn'. destruct (R2 Rn') as [A B]. split; [exact B|]. now rewrite A.
          -- now rewrite R3.
        * intros l Hl. injection Hl as ->. now rewrite (R1 _ eq_refl).
    - cbn. split; [|discriminate]. split.
      + intros Rn. destruct (HR Rn) as [Hn HF]. split; [exact Hn|]. exact HF.
      + now apply honest_fold.
  Qed.

  Lemma fold_completions F : forall acts s os, Inv F s -> honest orc acts ->
    (forall l, In l (completions os) -> l = F) ->
    forall l, In l (completions (snd (fold_left (fun acc a => let '(s, os) := acc in
                          let '(s', o) := hstep s a in
                          (s', match o with Some x => os ++ [x] | None => os end)) acts (s, os)))) -> l = F.
  Proof.
    induction acts as [|a acts IH]; intros s os HI Hh Hos l; cbn [fold_left snd]; [apply Hos|].
    destruct (hstep s a) as [s' o] eqn:E.
    assert (Ha : match a with HFulfil rs => forall id r, In (id, r) rs -> r = ROk (orc id) | HStep => True end).
    { destruct a; [exact I|]. intros id r Hin. eapply Hh; [left; reflexivity|exact Hin]. }
    destruct (hstep_inv F s a HI Ha) as [HI' Hc]. rewrite E in HI', Hc. cbn [fst snd] in HI', Hc.
    apply IH; [exact HI'| intros rs Hrs; apply Hh; now right |].
    intros l' Hl'. destruct o as [x|]; [|now apply Hos].
    unfold completions in Hl'. rewrite flat_map_app in Hl'. apply in_app_or in Hl'.
    destruct Hl' as [Hl'|Hl']; [now apply Hos|].
    cbn in Hl'. destruct x; cbn in Hl'; try contradiction.
    destruct Hl' as [<-|[]]. now apply Hc.
  Qed.

  Theorem schedule_independent p acts : no_cancel p = true -> honest orc acts ->
    forall l, In l (completions (snd (hrun p acts))) -> l = sync_result orc p.
  Proof.
    intros Hn Hh l Hl. unfold hrun in Hl.
    eapply (fold_completions (sync_result orc p)); [| exact Hh | | exact Hl].
    - split; [intros _; split; [exact Hn|reflexivity]|]. intros id r H. cbn in H. discriminate.
    - intros l' [].
  Qed.
End P.
