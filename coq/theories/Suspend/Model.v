(* C07, part 1: what a suspension carries.

   BytecodeVM::save_state and BytecodeVM::from_saved_state (and the generator
   variant in Interpreter::resume_bytecode_generator) are field-by-field
   copies between four record types. tools/translate.py reads, from the
   current source, where every field of every record literal in those
   functions comes from (Generated/FactsC07.v: flow_* tables, one
   "(field, (role, source-field))" entry per field). This file gives those
   tables a meaning: records are total maps from field names to values, a
   table entry copies a field of the named source record, and "fresh",
   "param" entries produce a value that does not depend on the VM that was
   suspended. No proofs here. *)
From Coq Require Import List String Bool.
Import ListNotations.
Local Open Scope string_scope.

Definition flow := list (string * (string * string)).

Fixpoint lookup (f : string) (t : flow) : option (string * string) :=
  match t with
  | [] => None
  | (g, o) :: r => if String.eqb g f then Some o else lookup f r
  end.

Section Records.
  Variable V : Type.
  Variable blank : V.                      (* Vec::new(), None, a new guard, ... *)
  Definition rec := string -> V.

  (* build a record from table [t], reading source fields from [src] when the
     entry's role is [role], and producing [blank] otherwise *)
  Definition build (t : flow) (role : string) (src : rec) : rec :=
    fun f => match lookup f t with
             | Some (r, g) => if String.eqb r role then src g else blank
             | None => blank
             end.

  (* a VM: the running frame and the trampoline frames of its callers *)
  Record vm := mkVm { top : rec; callers : list rec }.
  Record saved := mkSaved { stop : rec; scallers : list rec }.

  Variables (save_top save_frame restore_top restore_frame : flow).

  (* the caller frames travel only if the tables pass trampoline_stack along *)
  Definition links (t : flow) (role : string) : bool :=
    match lookup "trampoline_stack" t with
    | Some (r, g) => String.eqb r role && String.eqb g "trampoline_stack"
    | None => false
    end.

  Definition save (m : vm) : saved :=
    mkSaved (build save_top "vm" (top m))
            (if links save_top "vm" then map (build save_frame "frame") (callers m) else []).

  Definition restore (s : saved) : vm :=
    mkVm (build restore_top "state" (stop s))
         (if links restore_top "state" then map (build restore_frame "saved") (scallers s) else []).

  (* decidable check on the tables: field f of the rebuilt record is a copy of
     a saved field that is itself a copy of field f of the original *)
  Definition carried (st rt : flow) (r1 r2 : string) (f : string) : bool :=
    match lookup f rt with
    | Some (r, g) =>
        String.eqb r r2 &&
        match lookup g st with
        | Some (r', f') => String.eqb r' r1 && String.eqb f' f
        | None => false
        end
    | None => false
    end.
End Records.

(* fields that hold no program state: roots and allocation pools. Everything
   else a program can observe through some instruction. *)
Definition scratch_top : list string := ["register_guard"; "register_pool"; "arguments_pool"; "trampoline_stack"].
Definition scratch_frame : list string := ["register_guard"].

Definition minus (a b : list string) : list string :=
  filter (fun x => negb (existsb (String.eqb x) b)) a.

(* generator resumption goes VM -> SavedVmState -> BytecodeGeneratorState -> SavedVmState -> VM.
   [g] is a SavedVmState field: it survives the generator object if the resume
   table reads it from a generator field that the store table filled from it,
   or from a field the generator object keeps from its creation. *)
Definition gen_state_carried (store resume : flow) (g : string) : bool :=
  match lookup g resume with
  | Some (r, h) =>
      String.eqb r "gen" &&
      match lookup h store with
      | Some (r', g') => String.eqb r' "state" && String.eqb g' g
      | None => existsb (String.eqb h) ["chunk"; "this_value"; "args"]
      end
  | None => false
  end.

Definition gen_carried (st rt store resume : flow) (f : string) : bool :=
  carried st rt "vm" "state" f &&
  match lookup f rt with
  | Some (_, g) => gen_state_carried store resume g
  | None => false
  end.
