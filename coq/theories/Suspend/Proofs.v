From Coq Require Import List String Bool.
From TsrunV Require Import Suspend.Model.
Import ListNotations.
Local Open Scope string_scope.

Section P.
  Variable V : Type.
  Variable blank : V.
  Variables (st sf rt rf : flow).

  Lemma carried_build (t1 t2 : flow) (r1 r2 f : string) (x : rec V) :
    carried t1 t2 r1 r2 f = true ->
    build V blank t2 r2 (build V blank t1 r1 x) f = x f.
  Proof.
    unfold carried, build. intros H.
    destruct (lookup f t2) as [[r g]|]; [|discriminate].
    apply andb_true_iff in H. destruct H as [Hr H]. rewrite Hr.
    destruct (lookup g t1) as [[r' f']|]; [|discriminate].
    apply andb_true_iff in H. destruct H as [Hr' Hf]. rewrite Hr'.
    apply String.eqb_eq in Hf. now subst.
  Qed.

  Theorem top_roundtrip (fields : list string) (m : vm V) :
    forallb (carried st rt "vm" "state") fields = true ->
    forall f, In f fields ->
      top V (restore V blank rt rf (save V blank st sf m)) f = top V m f.
  Proof.
    intros H f Hf. rewrite forallb_forall in H. specialize (H f Hf).
    unfold restore, save; cbn [top stop]. now apply carried_build.
  Qed.

  Theorem callers_roundtrip (fields : list string) (m : vm V) :
    links st "vm" = true -> links rt "state" = true ->
    forallb (carried sf rf "frame" "saved") fields = true ->
    List.length (callers V (restore V blank rt rf (save V blank st sf m))) = List.length (callers V m) /\
    forall i fr fr', nth_error (callers V m) i = Some fr ->
      nth_error (callers V (restore V blank rt rf (save V blank st sf m))) i = Some fr' ->
      forall f, In f fields -> fr' f = fr f.
  Proof.
    intros L1 L2 H. unfold restore, save; cbn [callers scallers]. rewrite L1, L2.
    rewrite map_map. split; [now rewrite map_length|].
    intros i fr fr' H1 H2 f Hf.
    rewrite nth_error_map, H1 in H2. cbn in H2. injection H2 as <-.
    rewrite forallb_forall in H. now apply carried_build, H.
  Qed.
End P.

(* when a field is not carried, two VMs that differ in it are rebuilt equal:
   the rebuilt VM cannot depend on the value the program had there *)
Lemma not_carried_lost (V : Type) (blank : V) (st sf rt rf : flow) (f : string) :
  (forall role g, lookup f rt = Some (role, g) -> role <> "state") ->
  forall m m' : vm V,
    top V (restore V blank rt rf (save V blank st sf m)) f =
    top V (restore V blank rt rf (save V blank st sf m')) f.
Proof.
  intros H m m'. unfold restore, save, build; cbn [top stop].
  destruct (lookup f rt) as [[r g]|] eqn:E; [|reflexivity].
  destruct (String.eqb r "state") eqn:Er; [|reflexivity].
  apply String.eqb_eq in Er. exfalso. exact (H r g eq_refl Er).
Qed.
