(* C07, part 2: the outcome does not depend on the host's schedule.

   Built on the order-ledger model Host.Ledger (tied to Interpreter::step by
   the C08 trace correspondence). The host answers order [id] with [orc id];
   it may answer early or late, in any order, in any batches, repeat answers
   and call step() as often as it likes. [sync_run] is the program run with
   every order answered on the spot (the in-program synchronous stub). *)
From Coq Require Import List Bool NArith ZArith Lia.
From TsrunV Require Import Host.Ledger.
Import ListNotations.
Local Open Scope N_scope.

Fixpoint no_cancel (p : list pev) : bool :=
  match p with
  | [] => true
  | PCancel _ :: _ => false
  | _ :: r => no_cancel r
  end.

Section Sched.
  Variable orc : N -> Z.

  Fixpoint sync_run (p : list pev) (nid : N) (mk : list N) (lg : list seen) : list seen :=
    match p with
    | [] => lg
    | POrder _ _ :: r => sync_run r (nid + 1) mk (lg ++ [SVal (orc nid)])
    | PIssue _ :: r => sync_run r (nid + 1) (mk ++ [nid]) lg
    | PAwaitMarker j _ :: r =>
        match nth_error mk j with
        | Some id => sync_run r nid mk (lg ++ [SVal (orc id)])
        | None => sync_run r nid mk lg
        end
    | PCancel _ :: r => sync_run r nid mk lg
    | PGetId :: r => sync_run r (nid + 1) mk (lg ++ [SId nid])
    end.

  Definition sync_result (p : list pev) : list seen := sync_run p 1 [] [].

  Definition final (s : st) : list seen :=
    match susp s with
    | Some (id, _) => sync_run (prog s) (next_id s) (markers s) (log s ++ [SVal (orc id)])
    | None => sync_run (prog s) (next_id s) (markers s) (log s)
    end.

  Definition honest_resp (l : list (N * resp)) : Prop :=
    forall id r, lookup id l = Some r -> r = ROk (orc id).

  Definition honest (acts : list haction) : Prop :=
    forall rs, In (HFulfil rs) acts -> forall id r, In (id, r) rs -> r = ROk (orc id).

  Definition completions (os : list obs) : list (list seen) :=
    flat_map (fun o => match o with OComplete l => [l] | _ => [] end) os.
End Sched.
