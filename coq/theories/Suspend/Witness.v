(* Non-vacuity and the pre-fix tables. *)
From Coq Require Import List String Bool NArith ZArith.
From TsrunV Require Import Host.Ledger Suspend.Model Suspend.Proofs Suspend.Schedule Generated.FactsC07 Suspend.Tables.
Import ListNotations.

(* ---- schedules: one program, three very different hosts, one outcome ------------------ *)
Definition orc (id : N) : Z := (Z.of_N id * 10)%Z.
Definition prog1 : list pev :=
  [PIssue 1%Z; PIssue 2%Z; PAwaitMarker 1 false; POrder 3%Z false; PAwaitMarker 0 false; PGetId].

Definition ok (id : N) := (id, ROk (orc id)).
Definition eager : list haction :=
  [HStep; HFulfil [ok 2%N]; HStep; HFulfil [ok 3%N]; HStep; HFulfil [ok 1%N]; HStep].
Definition lazy_reversed : list haction :=
  [HStep; HStep; HStep; HFulfil [ok 1%N]; HStep; HStep; HFulfil [ok 2%N]; HStep; HStep; HFulfil [ok 3%N; ok 3%N]; HStep; HStep; HStep].
Definition batched : list haction :=
  [HStep; HFulfil [ok 1%N; ok 2%N]; HStep; HFulfil [ok 3%N]; HStep; HStep].

Lemma schedules_complete :
  completions (snd (hrun prog1 eager)) = [sync_result orc prog1] /\
  completions (snd (hrun prog1 lazy_reversed)) = [sync_result orc prog1] /\
  completions (snd (hrun prog1 batched)) = [sync_result orc prog1] /\
  sync_result orc prog1 = [SVal 20%Z; SVal 30%Z; SVal 10%Z; SId 4%N] /\
  no_cancel prog1 = true.
Proof. vm_compute. repeat split. Qed.

(* ---- the tables before fix 66c9150 (from_saved_state's Self literal) ---------------------- *)
Local Open Scope string_scope.
Definition prefix_restore_top : flow :=
  [("ip", ("state", "ip")); ("chunk", ("state", "chunk")); ("registers", ("state", "registers"));
   ("register_guard", ("param", "guard")); ("call_stack", ("state", "frames")); ("try_stack", ("state", "try_stack"));
   ("this_value", ("param", "this_value")); ("exception_value", ("fresh", "")); ("saved_env_stack", ("fresh", ""));
   ("arguments", ("state", "arguments")); ("new_target", ("state", "new_target")); ("current_constructor", ("fresh", ""));
   ("pending_completion", ("fresh", "")); ("trampoline_stack", ("state", "trampoline_stack"));
   ("register_pool", ("fresh", "")); ("arguments_pool", ("fresh", ""))].

Lemma prefix_lost :
  filter (fun f => negb (carried flow_save_state_SavedVmState prefix_restore_top "vm" "state" f)) top_fields =
  ["this_value"; "exception_value"; "saved_env_stack"; "current_constructor"; "pending_completion"].
Proof. vm_compute. reflexivity. Qed.

(* with those tables two VMs that differ in `this` resume identically: the program's `this` cannot survive *)
Lemma prefix_this_lost : forall (V : Type) (blank : V) (m m' : vm V),
  top V (restore V blank prefix_restore_top flow_from_saved_state_TrampolineFrame (save_vm blank m)) "this_value" =
  top V (restore V blank prefix_restore_top flow_from_saved_state_TrampolineFrame (save_vm blank m')) "this_value".
Proof.
  intros V blank m m'. unfold save_vm. apply not_carried_lost.
  intros role g H. vm_compute in H. injection H as <- _. discriminate.
Qed.
