(* C19 -- all ways of running a program agree. Only statements. *)
From Coq Require Import List String Arith.
From TsrunV Require Import Entry.Model Entry.Proofs Generated.FactsC19.
Import ListNotations.
Local Open Scope string_scope.

(* One deterministic step function, any driver: a host that runs in arbitrary
   budgets (one call, single steps, anything between) and reads the API
   between them gets the result of the single-call run, and gets one whenever
   the single-call run does. *)
Theorem c19_budgets_agree : forall (St Res Obs : Type) (step : St -> St + Res) (observe : St -> Obs) ks s r,
  fst (run_budgets St Res Obs step observe ks s) = Some r -> run St Res step (list_sum ks) s = Some r.
Proof. exact budgets_agree. Qed.
Print Assumptions c19_budgets_agree.

Theorem c19_budgets_complete : forall (St Res Obs : Type) (step : St -> St + Res) (observe : St -> Obs) ks s r,
  run St Res step (list_sum ks) s = Some r -> Forall (fun k => 0 < k) ks ->
  fst (run_budgets St Res Obs step observe ks s) = Some r.
Proof. exact budgets_complete. Qed.
Print Assumptions c19_budgets_complete.

(* What makes the implementation an instance: its entry points reach the one
   step function through the same preparation. Read from the current source
   on every run: eval and prepare perform the same sequence of preparation
   calls (parse, import requests, filter, de-duplicate, module environment,
   import bindings, compile) before the VM is created, and the C API entry
   points call nothing but prepare and step. *)
Theorem c19_eval_and_prepare_share_their_prologue : prologue_eval = prologue_prepare.
Proof. reflexivity. Qed.
Print Assumptions c19_eval_and_prepare_share_their_prologue.

Theorem c19_prologue_is_complete :
  prologue_prepare = ["new"; "collect_import_requests_internal"; "filter_missing_imports"; "dedupe_import_requests";
                      "create_module_environment"; "setup_import_bindings"; "compile_program_with_source"; "compile_program"].
Proof. reflexivity. Qed.
Print Assumptions c19_prologue_is_complete.

Theorem c19_capi_uses_prepare_and_step_only :
  capi_entry_calls = ["tsrun_prepare: prepare"; "tsrun_run: step"; "tsrun_step: step"].
Proof. reflexivity. Qed.
Print Assumptions c19_capi_uses_prepare_and_step_only.

(* non-vacuity: a counter machine, three drivers *)
Definition cstep (s : nat) : nat + nat := if Nat.leb 7 s then inr (s * 2) else inl (S s).
Theorem c19_witness :
  run nat nat cstep 20 0 = Some 14 /\
  fst (run_budgets nat nat nat cstep (fun s => s) (repeat 1 20) 0) = Some 14 /\
  run_budgets nat nat nat cstep (fun s => s) [3; 1; 2; 5] 0 = (Some 14, [0; 3; 4; 6]).
Proof. vm_compute. repeat split. Qed.
Print Assumptions c19_witness.
