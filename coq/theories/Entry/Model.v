(* C19: ways of driving one deterministic machine.
   [step] is Interpreter::step (one instruction or a terminal result); the
   drivers are the entry points: a loop in one call (eval / tsrun_run), a
   host loop of single steps (prepare+step / tsrun_step), a host that reads
   through the API between steps, a host that runs in budgets. No proofs. *)
From Coq Require Import List Arith.
Import ListNotations.

Section Machine.
  Variables St Res Obs : Type.
  Variable step : St -> St + Res.
  Variable observe : St -> Obs.       (* a host API read: a function of the state, it does not change it *)

  (* run to completion in one call *)
  Fixpoint run (fuel : nat) (s : St) : option Res :=
    match fuel with
    | O => None
    | S f => match step s with inl s' => run f s' | inr r => Some r end
    end.

  (* at most k steps, then control returns to the host with the state (or the result) *)
  Fixpoint run_n (k : nat) (s : St) : St + Res :=
    match k with
    | O => inl s
    | S k' => match step s with inl s' => run_n k' s' | inr r => inr r end
    end.

  (* a host that runs in budgets ks and reads the API before each budget *)
  Fixpoint run_budgets (ks : list nat) (s : St) : option Res * list Obs :=
    match ks with
    | [] => (None, [])
    | k :: r =>
        let o := observe s in
        match run_n k s with
        | inr res => (Some res, [o])
        | inl s' => let '(res, os) := run_budgets r s' in (res, o :: os)
        end
    end.
End Machine.
