From Coq Require Import List Arith Lia.
From TsrunV Require Import Entry.Model.
Import ListNotations.

Section P.
  Variables St Res Obs : Type.
  Variable step : St -> St + Res.
  Variable observe : St -> Obs.

  Lemma run_n_run k : forall s fuel, k <= fuel ->
    match run_n St Res step k s with
    | inr r => run St Res step fuel s = Some r
    | inl s' => run St Res step fuel s = run St Res step (fuel - k) s'
    end.
  Proof.
    induction k as [|k IH]; intros s fuel Hk; cbn.
    - now rewrite Nat.sub_0_r.
    - destruct fuel as [|fuel]; [lia|]. cbn. destruct (step s) as [s'|r]; [|reflexivity].
      apply IH. lia.
  Qed.

  (* however the host cuts the run into budgets and whatever it reads in between,
     a result it obtains is the result of the single-call run *)
  Theorem budgets_agree : forall ks s r,
    fst (run_budgets St Res Obs step observe ks s) = Some r ->
    run St Res step (list_sum ks) s = Some r.
  Proof.
    induction ks as [|k ks IH]; intros s r H; cbn in H; [discriminate|].
    change (list_sum (k :: ks)) with (k + list_sum ks). pose proof (run_n_run k s (k + list_sum ks) (Nat.le_add_r _ _)) as Hk.
    destruct (run_n St Res step k s) as [s'|res].
    - destruct (run_budgets St Res Obs step observe ks s') as [res os] eqn:E. cbn in H.
      rewrite Hk. replace (k + list_sum ks - k) with (list_sum ks) by lia.
      apply IH. now rewrite E.
    - cbn in H. injection H as <-. exact Hk.
  Qed.

  (* and if the single-call run finishes within the budgets, so does the budgeted run, with the same result *)
  Theorem budgets_complete : forall ks s r,
    run St Res step (list_sum ks) s = Some r ->
    Forall (fun k => 0 < k) ks ->
    fst (run_budgets St Res Obs step observe ks s) = Some r.
  Proof.
    induction ks as [|k ks IH]; intros s r H Hpos; [cbn in H; discriminate|].
    cbn [run_budgets]. pose proof (run_n_run k s (k + list_sum ks) (Nat.le_add_r _ _)) as Hk.
    change (list_sum (k :: ks)) with (k + list_sum ks) in H.
    destruct (run_n St Res step k s) as [s'|res].
    - rewrite Hk in H. replace (k + list_sum ks - k) with (list_sum ks) in H by lia.
      inversion Hpos; subst. specialize (IH s' r H H3).
      destruct (run_budgets St Res Obs step observe ks s') as [res os]. exact IH.
    - cbn. rewrite Hk in H. exact H.
  Qed.

  (* single steps are budgets of one *)
  Corollary stepping_agrees : forall n s r,
    fst (run_budgets St Res Obs step observe (repeat 1 n) s) = Some r -> run St Res step n s = Some r.
  Proof.
    intros n s r H. apply budgets_agree in H.
    assert (E : forall m, list_sum (repeat 1 m) = m).
    { induction m as [|m IHm]; [reflexivity|]. change (repeat 1 (S m)) with (1 :: repeat 1 m).
      change (list_sum (1 :: repeat 1 m)) with (1 + list_sum (repeat 1 m)). now rewrite IHm. }
    now rewrite E in H.
  Qed.
End P.
