(* C17: the C API's handle discipline.
   A host holds context handles and value handles; every API function takes some
   of them (possibly NULL) and returns a result. The model carries what the
   property speaks about: which handles are live, which call reports misuse,
   and what releasing does - not the values. Values are boxes owning a guard on
   the context's heap (TsRunValue { inner: RuntimeValue }): releasing them goes
   through the Gc operations Drop / DropGuard of Gc/Model.v. No proofs here. *)
From Coq Require Import List Bool Arith.
Import ListNotations.

Inductive arg := Null | Ctx (c : nat) | Val (v : nat).

Record st := mkSt {
  ctx_live : list bool;              (* context i is live *)
  val_live : list (bool * nat)       (* value j is live, created in context fst/snd *)
}.

Inductive result := ROk | RErr | RNewVal (v : nat) | RNewCtx (c : nat).

Definition is_null (a : arg) : bool := match a with Null => true | _ => false end.

Definition live_arg (s : st) (a : arg) : bool :=
  match a with
  | Null => false
  | Ctx c => nth c (ctx_live s) false
  | Val v => fst (nth v (val_live s) (false, 0))
  end.

Inductive call :=
| CNew                                  (* tsrun_new *)
| CFreeCtx (a : arg)                    (* tsrun_free: NULL is a no-op *)
| CFreeVal (a : arg)                    (* tsrun_value_free: NULL is a no-op *)
| CMake (ctx : arg)                     (* any constructor: tsrun_number, tsrun_object_new, ... *)
| CUse (ctx : arg) (args : list arg) (makes : bool).   (* any other function with pointer parameters *)

Fixpoint set_nth {A} (l : list A) (i : nat) (x : A) : list A :=
  match l, i with
  | [], _ => []
  | _ :: r, O => x :: r
  | y :: r, S k => y :: set_nth r k x
  end.

Definition step (s : st) (c : call) : st * result :=
  match c with
  | CNew => (mkSt (ctx_live s ++ [true]) (val_live s), RNewCtx (length (ctx_live s)))
  | CFreeCtx Null => (s, ROk)
  | CFreeCtx (Ctx i) => (mkSt (set_nth (ctx_live s) i false) (val_live s), ROk)
  | CFreeCtx _ => (s, RErr)
  | CFreeVal Null => (s, ROk)
  | CFreeVal (Val j) => (mkSt (ctx_live s) (set_nth (val_live s) j (false, snd (nth j (val_live s) (false, 0)))), ROk)
  | CFreeVal _ => (s, RErr)
  | CMake Null => (s, RErr)
  | CMake (Ctx i) => (mkSt (ctx_live s) (val_live s ++ [(true, i)]), RNewVal (length (val_live s)))
  | CMake _ => (s, RErr)
  | CUse ctx args makes =>
      if is_null ctx || existsb is_null args then (s, RErr)
      else if makes then
        match ctx with
        | Ctx i => (mkSt (ctx_live s) (val_live s ++ [(true, i)]), RNewVal (length (val_live s)))
        | _ => (s, RErr)
        end
      else (s, ROk)
  end.

(* the sequences the property quantifies over: handles obtained from the API; a released handle is only
   ever passed to nothing; values may be released before or after their context *)
Definition well_used (s : st) (c : call) : bool :=
  match c with
  | CNew => true
  | CFreeCtx a => is_null a || live_arg s a
  | CFreeVal a => is_null a || live_arg s a            (* whatever happened to its context *)
  | CMake a => is_null a || live_arg s a
  | CUse ctx args _ =>
      (is_null ctx || live_arg s ctx) &&
      forallb (fun a => is_null a || (live_arg s a &&
                 match a, ctx with
                 | Val v, Ctx i => Nat.eqb (snd (nth v (val_live s) (false, 0))) i   (* a value is used with its own context *)
                 | _, _ => true
                 end)) args
  end.

(* what the implementation dereferences when it executes a call *)
Definition derefs (c : call) : list arg :=
  match c with
  | CNew => []
  | CFreeCtx a | CFreeVal a | CMake a => [a]
  | CUse ctx args _ => if is_null ctx || existsb is_null args then [] else ctx :: args
  end.
