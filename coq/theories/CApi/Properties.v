(* C17 -- the C API is memory-safe and total for every call sequence. Only statements. *)
From Coq Require Import List String Bool Arith.
From TsrunV Require Import CApi.Model CApi.Proofs Generated.FactsC17.
From TsrunV Require Gc.Model.
Import ListNotations.

(* NULL in any pointer position of any function is reported through the
   result and changes nothing; NULL to a release function is a no-op. *)
Theorem c17_null_is_reported : forall s ctx args makes,
  is_null ctx || existsb is_null args = true -> step s (CUse ctx args makes) = (s, RErr).
Proof. exact null_is_reported. Qed.
Print Assumptions c17_null_is_reported.

Theorem c17_null_release_is_a_no_op : forall s, step s (CFreeCtx Null) = (s, ROk) /\ step s (CFreeVal Null) = (s, ROk).
Proof. exact null_release_is_a_no_op. Qed.
Print Assumptions c17_null_release_is_a_no_op.

(* In every call of a sequence that uses handles obtained from the API and
   not yet released - in any order of creation, use and release, values
   outliving their context included - nothing released is dereferenced. *)
Theorem c17_no_use_after_release : forall s c, well_used s c = true ->
  forall a, In a (derefs c) -> is_null a = true \/ live_arg s a = true.
Proof. exact no_use_after_release. Qed.
Print Assumptions c17_no_use_after_release.

(* Releasing a value handle never depends on the state of its context's heap:
   the collector operations behind tsrun_value_free neither fault nor panic in
   any heap state of the Gc model (tied to src/gc.rs by C13), dropped heap included. *)
Theorem c17_release_is_safe_in_every_heap_state : forall (s : Gc.Model.space) (o : Gc.Model.op),
  (exists h, o = Gc.Model.Drop h) \/ (exists g, o = Gc.Model.DropGuard g) \/
  (exists g h, o = Gc.Model.Unguard g h) \/ (exists g, o = Gc.Model.Clear g) ->
  snd (Gc.Model.step s o) <> Gc.Model.OFault /\ snd (Gc.Model.step s o) <> Gc.Model.OPanic.
Proof. exact release_never_faults. Qed.
Print Assumptions c17_release_is_safe_in_every_heap_state.

(* The implementation reports NULL: regenerated on every run, the only pointer
   parameters of the 64 exported functions whose body shows no NULL handling are
   three opaque userdata pointers (never dereferenced) and the value pointer that
   tsrun_internal_module_add_value stores and checks when the module is registered. *)
Local Open Scope string_scope.
Theorem c17_every_pointer_parameter_is_checked :
  ffi_unchecked_pointer_params = ["tsrun_internal_module_add_function(userdata)"; "tsrun_internal_module_add_value(value)";
                                  "tsrun_native_function(userdata)"; "tsrun_set_console(userdata)"] /\
  ffi_pointer_param_count = ["116"] /\ List.length ffi_exports = 64.
Proof. repeat split; reflexivity. Qed.
Print Assumptions c17_every_pointer_parameter_is_checked.

(* non-vacuity: create, use, release the context first, then the values *)
Theorem c17_witness :
  let s1 := fst (step (mkSt [] []) CNew) in
  let s2 := fst (step s1 (CMake (Ctx 0))) in
  let s3 := fst (step s2 (CMake (Ctx 0))) in
  well_used s3 (CUse (Ctx 0) [Val 0; Val 1] true) = true /\
  snd (step s3 (CUse (Ctx 0) [Val 0; Null] true)) = RErr /\
  let s4 := fst (step s3 (CFreeCtx (Ctx 0))) in
  well_used s4 (CFreeVal (Val 1)) = true /\ well_used s4 (CUse (Ctx 0) [Val 0] false) = false.
Proof. vm_compute. repeat split. Qed.
Print Assumptions c17_witness.
