From Coq Require Import List Bool Arith ZArith Lia.
From TsrunV Require Import CApi.Model.
From TsrunV Require Gc.Model.
Import ListNotations.

(* a NULL in any pointer position is reported and changes nothing *)
Theorem null_is_reported : forall s ctx args makes,
  is_null ctx || existsb is_null args = true -> step s (CUse ctx args makes) = (s, RErr).
Proof. intros s ctx args makes H. cbn. now rewrite H. Qed.

Theorem null_constructor_is_reported : forall s, step s (CMake Null) = (s, RErr).
Proof. reflexivity. Qed.

Theorem null_release_is_a_no_op : forall s, step s (CFreeCtx Null) = (s, ROk) /\ step s (CFreeVal Null) = (s, ROk).
Proof. split; reflexivity. Qed.

(* in a well-used call nothing released is dereferenced *)
Theorem no_use_after_release : forall s c, well_used s c = true ->
  forall a, In a (derefs c) -> is_null a = true \/ live_arg s a = true.
Proof.
  intros s c H a Ha. destruct c as [|x|x|x|ctx args makes]; cbn in *.
  - contradiction.
  - destruct Ha as [<-|[]]. apply orb_true_iff in H. tauto.
  - destruct Ha as [<-|[]]. apply orb_true_iff in H. tauto.
  - destruct Ha as [<-|[]]. apply orb_true_iff in H. tauto.
  - destruct (is_null ctx || existsb is_null args) eqn:E; [contradiction|].
    apply andb_true_iff in H. destruct H as [Hc Ha'].
    destruct Ha as [<-|Hin].
    + apply orb_true_iff in Hc. tauto.
    + rewrite forallb_forall in Ha'. specialize (Ha' _ Hin). apply orb_true_iff in Ha'.
      destruct Ha' as [N|L]; [now left|]. apply andb_true_iff in L. right. tauto.
Qed.

(* releasing a value never depends on its context being alive: the Gc operations behind
   tsrun_value_free (drop of the handle, drop of its guard) do not fault or panic in ANY heap state,
   in particular after the heap is gone *)
Import Gc.Model.
Theorem release_never_faults : forall (s : space) (o : op),
  (exists h, o = Drop h) \/ (exists g, o = DropGuard g) \/ (exists g h, o = Unguard g h) \/ (exists g, o = Clear g) ->
  snd (Gc.Model.step s o) <> OFault /\ snd (Gc.Model.step s o) <> OPanic.
Proof.
  intros s o [[h ->]|[[g ->]|[[g [h ->]]|[g ->]]]]; cbn.
  - destruct (live_handle s h); cbn; split; discriminate.
  - destruct (live_guard s g); cbn; split; discriminate.
  - destruct (live_guard s g); [|cbn; split; discriminate].
    destruct (live_handle s h); [|cbn; split; discriminate].
    destruct (position _ _); cbn; split; discriminate.
  - destruct (live_guard s g); cbn; split; discriminate.
Qed.
