(* C14: what a collection leaves alive is exactly the set reachable from the
   live guards, so the live-object count after a collection is the size of
   that set -- cycles and anything else unreachable do not count. *)
From Coq Require Import List Bool Arith Lia.
From TsrunV Require Import Gc.Model Gc.Mark Gc.Wf Gc.Step Gc.Collect.
Import ListNotations.

Lemma live_after_collect_is_reach_count : forall s m, wf s ->
  fuel_err (collect s) = false -> fuel_err s = false -> mark s = Some m ->
  length (slots (collect s)) - length (free (collect s)) =
  length (filter (is_marked m) (seq 0 (length (slots s)))).
Proof.
  intros s m Hwf Hf1 Hf0 Hm.
  destruct (collect_exact s Hwf Hf1 Hf0) as (Hwf' & Hlen & _ & Hpool & _).
  rewrite (live_count (collect s) Hwf'). rewrite Hlen.
  destruct (mark_exact s m Hm) as [_ Hmark].
  f_equal. apply filter_ext_in. intros i Hi. apply in_seq in Hi.
  destruct (is_marked m i) eqn:E.
  - apply Hmark in E. apply Hpool in E; [|lia]. now rewrite E.
  - destruct (pooled_at (slots (collect s)) i) eqn:P; [reflexivity|].
    apply Hpool in P; [|lia]. apply Hmark in P. congruence.
Qed.

(* two heaps whose reachable sets have the same size have the same live count after a collection *)
Lemma same_reach_same_live : forall s1 s2 m1 m2, wf s1 -> wf s2 ->
  fuel_err (collect s1) = false -> fuel_err s1 = false -> mark s1 = Some m1 ->
  fuel_err (collect s2) = false -> fuel_err s2 = false -> mark s2 = Some m2 ->
  length (filter (is_marked m1) (seq 0 (length (slots s1)))) = length (filter (is_marked m2) (seq 0 (length (slots s2)))) ->
  length (slots (collect s1)) - length (free (collect s1)) = length (slots (collect s2)) - length (free (collect s2)).
Proof.
  intros. rewrite (live_after_collect_is_reach_count s1 m1), (live_after_collect_is_reach_count s2 m2); auto.
Qed.
