(* C13 -- property theorems only (each closed by [exact]). *)
From Coq Require Import List Bool Arith NArith ZArith.
From TsrunV Require Import Gc.Model Gc.Mark Gc.Wf Gc.Step Gc.Collect Gc.Frame Gc.Witness.
Import ListNotations.

(* memory safety of the index arithmetic: in every state reachable by any
   history of public operations, every object reference, guard root, free-list
   entry and host handle names an existing slot, and the free list is exactly
   the set of pooled slots without duplicates *)
Theorem c13_structural_invariant : forall os, wf (exec init os).
Proof. exact wf_reachable. Qed.
Print Assumptions c13_structural_invariant.

(* the marking loop computes exactly reachability from the live guards *)
Theorem c13_mark_is_reachability : forall s m, mark s = Some m ->
  length m = length (slots s) /\ forall i, is_marked m i = true <-> Reach s i.
Proof. exact mark_exact. Qed.
Print Assumptions c13_mark_is_reachability.

(* a collection keeps exactly the reachable objects with their contents,
   resets and pools all others, and the free list becomes their complement *)
Theorem c13_collect_exact : forall s, wf s -> fuel_err (collect s) = false -> fuel_err s = false ->
  let s' := collect s in
  wf s' /\ length (slots s') = length (slots s) /\
  (forall i, Reach s' i <-> Reach s i) /\
  (forall i, i < length (slots s) -> (pooled_at (slots s') i = false <-> Reach s i)) /\
  (forall i x, Reach s i -> nth_error (slots s) i = Some x ->
     exists y, nth_error (slots s') i = Some y /\ data_eq x y) /\
  (forall i, i < length (slots s) -> ~ Reach s i -> pooled_at (slots s) i = false ->
     exists y, nth_error (slots s') i = Some y /\ s_pooled y = true /\ s_val y = 0%Z /\ s_refs y = []) /\
  (forall i, i < length (slots s') -> (In i (free s') <-> ~ Reach s i)) /\
  net s' = 0%Z.
Proof. exact collect_exact. Qed.
Print Assumptions c13_collect_exact.

(* Heap::stats().live_objects counts the non-pooled slots *)
Theorem c13_live_objects_count : forall s, wf s ->
  length (slots s) - length (free s) =
  length (filter (fun i => negb (pooled_at (slots s) i)) (seq 0 (length (slots s)))).
Proof. exact live_count. Qed.
Print Assumptions c13_live_objects_count.

(* between collections no operation changes a live object it does not write
   through its own handle, as long as Gc::drop never takes its count-reached-zero branch *)
Theorem c13_frame : forall s o, wf s -> collects s o = false ->
  rc0_events (fst (step s o)) = rc0_events s ->
  forall i x, nth_error (slots s) i = Some x -> s_pooled x = false -> ~ writes s o i ->
  exists y, nth_error (slots (fst (step s o))) i = Some y /\ data_eq x y.
Proof. exact frame_step. Qed.
Print Assumptions c13_frame.

(* known finding K1 (stale handles, generation check commented out in gc.rs) *)
Theorem c13_stale_double_drop_refuted :
  let s := exec init k1_prefix in
  let s' := exec s k1_drops in
  In 0 (live_roots (guards s)) /\ pooled_at (slots s) 0 = false /\
  snd (step s (Read 2)) = OObj 42 [] /\
  live_roots (guards s') = live_roots (guards s) /\
  snd (step s' (Read 2)) = OObj 0 [] /\ pooled_at (slots s') 0 = true /\
  snd (step s' Stats) = OStats 1 1 /\
  op_class s (Drop 0) = [1] /\ rc0_events s' = 1.
Proof. exact stale_double_drop_refuted. Qed.
Print Assumptions c13_stale_double_drop_refuted.

(* known finding K2 (Gc::borrow does not consult the Weak<Space>) *)
Theorem c13_borrow_after_heap_drop_refuted :
  let s := exec init [CreateGuard; Alloc 0; DropHeap] in
  snd (step s (Read 0)) = OFault /\ op_class s (Read 0) = [2] /\
  snd (step s (Drop 0)) = OUnit /\ snd (step s (Clone 0)) = OHandle 1 0.
Proof. exact borrow_after_heap_drop_refuted. Qed.
Print Assumptions c13_borrow_after_heap_drop_refuted.
