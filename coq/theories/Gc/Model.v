(* Executable model of src/gc.rs (Heap / Space / Guard / Gc), operation by
   operation, with the test payload { value; refs } of the Rust test-suite.
   A Gc<T> handle is its pointer = slot index. Fields [gens], [h_gen],
   [rc0_events] and [fuel_err] are ghost: no operation's visible result
   depends on them. No proofs in this file. *)
From Coq Require Import List Bool Arith NArith ZArith.
Import ListNotations.

Record slot := mkSlot { s_val : Z; s_refs : list nat; s_rc : N; s_pooled : bool }.
Record guard := mkGuard { g_roots : list nat; g_live : bool }.
Record handle := mkHandle { h_slot : nat; h_live : bool; h_gen : nat }.

Record space := mkSpace {
  slots : list slot;          (* chunks, flattened: index = chunk*256 + index_in_chunk *)
  gens : list nat;            (* ghost: how many times slot i has been pooled *)
  free : list nat;            (* free_list, head = last pushed (Vec::pop) *)
  guards : list guard;        (* every guard ever created, by creation order *)
  gpool : nat;                (* guard_pool.len() *)
  net : Z;                    (* net_allocs *)
  thr : Z;                    (* gc_threshold *)
  handles : list handle;      (* host-held Gc values, by creation order *)
  alive : bool;               (* Space not yet dropped *)
  rc0_events : nat;           (* ghost: times Gc::drop reset+pooled an object *)
  fuel_err : bool             (* ghost: the marking fuel ran out (never, see Proofs) *)
}.

Definition chunk_capacity : nat := 256.
Definition guard_pool_max : nat := 16.
Definition default_threshold : Z := 100%Z.

Definition init : space :=
  mkSpace [] [] [] [] 0 0%Z default_threshold [] true 0 false.

(* ---- helpers ---- *)
Fixpoint upd {A} (l : list A) (i : nat) (f : A -> A) : list A :=
  match l, i with
  | [], _ => []
  | x :: r, O => f x :: r
  | x :: r, S j => x :: upd r j f
  end.

Definition slot_at (sl : list slot) (i : nat) : option slot := nth_error sl i.
Definition pooled_at (sl : list slot) (i : nat) : bool :=
  match nth_error sl i with Some x => s_pooled x | None => true end.

Definition set_slots (s : space) (sl : list slot) : space :=
  mkSpace sl (gens s) (free s) (guards s) (gpool s) (net s) (thr s) (handles s) (alive s) (rc0_events s) (fuel_err s).
Definition set_guards (s : space) (g : list guard) : space :=
  mkSpace (slots s) (gens s) (free s) g (gpool s) (net s) (thr s) (handles s) (alive s) (rc0_events s) (fuel_err s).
Definition set_handles (s : space) (h : list handle) : space :=
  mkSpace (slots s) (gens s) (free s) (guards s) (gpool s) (net s) (thr s) h (alive s) (rc0_events s) (fuel_err s).
Definition set_net (s : space) (n : Z) : space :=
  mkSpace (slots s) (gens s) (free s) (guards s) (gpool s) n (thr s) (handles s) (alive s) (rc0_events s) (fuel_err s).

(* Gc::drop reached while the Space is mutably borrowed (inside collect,
   alloc_internal or an outer Gc::drop): only the count moves *)
Definition dec_rc (x : slot) : slot :=
  if s_pooled x then x else mkSlot (s_val x) (s_refs x) (N.pred (s_rc x)) (s_pooled x).
Definition drop_nested (sl : list slot) (j : nat) : list slot := upd sl j dec_rc.

(* Space::pool_object *)
Definition pool_slot (s : space) (i : nat) : space :=
  if pooled_at (slots s) i then s else
  mkSpace (upd (slots s) i (fun x => mkSlot (s_val x) (s_refs x) (s_rc x) true))
          (upd (gens s) i S) (i :: free s) (guards s) (gpool s) (net s - 1)%Z (thr s)
          (handles s) (alive s) (rc0_events s) (fuel_err s).

(* T::reset of slot i with the Space borrowed, followed by `tail` on the count *)
Definition reset_slot (sl : list slot) (i : nat) (new_rc : N -> N) : list slot :=
  match nth_error sl i with
  | None => sl
  | Some x =>
      let sl' := fold_left drop_nested (s_refs x) sl in
      upd sl' i (fun y => mkSlot 0%Z [] (new_rc (s_rc y)) (s_pooled y))
  end.

(* impl Drop for Gc, Space not borrowed *)
Definition drop_top (s : space) (i : nat) : space :=
  if negb (alive s) then s else
  match nth_error (slots s) i with
  | None => s
  | Some x =>
      if s_pooled x then s else
      let c := N.pred (s_rc x) in
      let sl1 := upd (slots s) i (fun y => mkSlot (s_val y) (s_refs y) c (s_pooled y)) in
      if N.eqb c 0 then
        let s2 := set_slots s (reset_slot sl1 i (fun r => r)) in
        let s3 := pool_slot s2 i in
        mkSpace (slots s3) (gens s3) (free s3) (guards s3) (gpool s3) (net s3) (thr s3)
                (handles s3) (alive s3) (S (rc0_events s3)) (fuel_err s3)
      else set_slots s sl1
  end.

(* impl Clone for Gc: count side *)
Definition inc_rc (s : space) (i : nat) : space :=
  if negb (alive s) then s else
  set_slots s (upd (slots s) i (fun x => if s_pooled x then x
                                          else mkSlot (s_val x) (s_refs x) (s_rc x + 1) (s_pooled x))).

(* ---- mark ---- *)
Definition is_marked (m : list bool) (i : nat) : bool := nth i m false.
Definition set_mark (m : list bool) (i : nat) : list bool := upd m i (fun _ => true).

Fixpoint mark_loop (fuel : nat) (sl : list slot) (stack : list nat) (m : list bool) : option (list bool) :=
  match stack with
  | [] => Some m
  | p :: st =>
      match fuel with
      | O => None
      | S f =>
          if is_marked m p then mark_loop f sl st m
          else match nth_error sl p with
               | None => mark_loop f sl st m
               | Some x =>
                   let m' := set_mark m p in
                   let kids := filter (fun c => negb (is_marked m' c) && negb (pooled_at sl c)) (s_refs x) in
                   mark_loop f sl (rev kids ++ st) m'
               end
      end
  end.

Definition live_roots (gs : list guard) : list nat :=
  flat_map (fun g => if g_live g then g_roots g else []) gs.
Definition init_stack (s : space) : list nat :=
  rev (filter (fun r => negb (pooled_at (slots s) r)) (live_roots (guards s))).
Definition edge_weight (sl : list slot) : nat :=
  fold_right (fun x a => S (length (s_refs x)) + a) 0 sl.
Definition mark_fuel (s : space) : nat := S (length (init_stack s) + edge_weight (slots s)).

Definition mark (s : space) : option (list bool) :=
  mark_loop (mark_fuel s) (slots s) (init_stack s) (repeat false (length (slots s))).

(* ---- sweep ---- *)
Definition victims (sl : list slot) (m : list bool) : list nat :=
  filter (fun i => negb (is_marked m i) && negb (pooled_at sl i)) (seq 0 (length sl)).

Definition sweep (s : space) (m : list bool) : space :=
  let v := victims (slots s) m in
  let sl1 := fold_left (fun sl i => reset_slot sl i (fun _ => 0%N)) v (slots s) in
  fold_left pool_slot v (set_slots s sl1).

Definition collect (s : space) : space :=
  match mark s with
  | None => mkSpace (slots s) (gens s) (free s) (guards s) (gpool s) (net s) (thr s)
                    (handles s) (alive s) (rc0_events s) true
  | Some m => set_net (sweep s m) 0%Z
  end.

(* ---- operations ---- *)
Inductive op :=
| CreateGuard | DropGuard (g : nat) | Alloc (g : nat)
| GuardClone (g h : nat)      (* guard.guard(h.clone()) *)
| GuardMove (g h : nat)       (* guard.guard(h) : the handle is consumed *)
| Unguard (g h : nat) | Clear (g : nat)
| Clone (h : nat) | Drop (h : nat)
| SetVal (h : nat) (z : Z) | Link (h1 h2 : nat) | Unlink (h i : nat) | ClearRefs (h : nat) | Read (h : nat)
| Collect | SetThr (n : N) | Stats | DropHeap.

Inductive out :=
| ONone                               (* operation refers to a dead guard / handle: not executed *)
| OUnit
| OHandle (h : nat) (slot_index : nat)
| OGuard (g : nat)
| OBool (b : bool)
| OObj (v : Z) (links : list nat)
| OStats (total pooled : nat)
| OPanic                              (* Guard::alloc after the heap was dropped *)
| OFault.                             (* dereference of freed chunk memory *)

Definition live_guard (s : space) (g : nat) : option guard :=
  match nth_error (guards s) g with Some x => if g_live x then Some x else None | None => None end.
Definition live_handle (s : space) (h : nat) : option handle :=
  match nth_error (handles s) h with Some x => if h_live x then Some x else None | None => None end.
Definition gen_at (s : space) (i : nat) : nat := nth i (gens s) 0.
Definition kill_handle (s : space) (h : nat) : space :=
  set_handles s (upd (handles s) h (fun x => mkHandle (h_slot x) false (h_gen x))).
Definition push_root (s : space) (g i : nat) : space :=
  set_guards s (upd (guards s) g (fun x => mkGuard (g_roots x ++ [i]) (g_live x))).

(* Vec::swap_remove at the first position holding i *)
Fixpoint position (l : list nat) (i : nat) : option nat :=
  match l with
  | [] => None
  | x :: r => if Nat.eqb x i then Some 0 else option_map S (position r i)
  end.
Definition swap_remove (l : list nat) (pos : nat) : list nat :=
  match rev l with
  | [] => l
  | lastx :: _ =>
      let l' := removelast l in
      if Nat.eqb pos (length l') then l' else upd l' pos (fun _ => lastx)
  end.

Definition alloc_internal (s0 : space) : space * nat :=
  let s1 := set_net s0 (net s0 + 1)%Z in
  let s2 := if (0 <? thr s1)%Z && (thr s1 <=? net s1)%Z then collect s1 else s1 in
  match free s2 with
  | i :: fr =>
      let sl := reset_slot (slots s2) i (fun r => r) in
      let sl := upd sl i (fun x => mkSlot (s_val x) (s_refs x) 1 false) in
      (mkSpace sl (gens s2) fr (guards s2) (gpool s2) (net s2) (thr s2) (handles s2) (alive s2)
               (rc0_events s2) (fuel_err s2), i)
  | [] =>
      (mkSpace (slots s2 ++ [mkSlot 0%Z [] 1 false]) (gens s2 ++ [0]) [] (guards s2) (gpool s2) (net s2) (thr s2)
               (handles s2) (alive s2) (rc0_events s2) (fuel_err s2), length (slots s2))
  end.

Definition step (s : space) (o : op) : space * out :=
  match o with
  | CreateGuard =>
      let gp := if alive s then Nat.pred (gpool s) else gpool s in
      (mkSpace (slots s) (gens s) (free s) (guards s ++ [mkGuard [] true]) gp (net s) (thr s)
               (handles s) (alive s) (rc0_events s) (fuel_err s), OGuard (length (guards s)))
  | DropGuard g =>
      match live_guard s g with
      | None => (s, ONone)
      | Some _ =>
          let gp := if alive s && Nat.ltb (gpool s) guard_pool_max then S (gpool s) else gpool s in
          (mkSpace (slots s) (gens s) (free s) (upd (guards s) g (fun _ => mkGuard [] false)) gp (net s) (thr s)
                   (handles s) (alive s) (rc0_events s) (fuel_err s), OUnit)
      end
  | Alloc g =>
      match live_guard s g with
      | None => (s, ONone)
      | Some _ =>
          if negb (alive s) then (s, OPanic) else
          let '(s1, i) := alloc_internal s in
          let s2 := set_slots s1 (upd (slots s1) i (fun x => mkSlot (s_val x) (s_refs x) (s_rc x + 1) (s_pooled x))) in
          let s3 := push_root s2 g i in
          let h := length (handles s3) in
          (set_handles s3 (handles s3 ++ [mkHandle i true (gen_at s3 i)]), OHandle h i)
      end
  | GuardClone g h =>
      match live_guard s g, live_handle s h with
      | Some _, Some hd =>
          let i := h_slot hd in
          let s1 := inc_rc s i in
          let s2 := if alive s1 && negb (pooled_at (slots s1) i) then push_root s1 g i else s1 in
          (drop_top s2 i, OUnit)
      | _, _ => (s, ONone)
      end
  | GuardMove g h =>
      match live_guard s g, live_handle s h with
      | Some _, Some hd =>
          let i := h_slot hd in
          let s2 := if alive s && negb (pooled_at (slots s) i) then push_root s g i else s in
          (kill_handle (drop_top s2 i) h, OUnit)
      | _, _ => (s, ONone)
      end
  | Unguard g h =>
      match live_guard s g, live_handle s h with
      | Some gd, Some hd =>
          match position (g_roots gd) (h_slot hd) with
          | Some pos => (set_guards s (upd (guards s) g (fun x => mkGuard (swap_remove (g_roots x) pos) (g_live x))), OBool true)
          | None => (s, OBool false)
          end
      | _, _ => (s, ONone)
      end
  | Clear g =>
      match live_guard s g with
      | Some _ => (set_guards s (upd (guards s) g (fun x => mkGuard [] (g_live x))), OUnit)
      | None => (s, ONone)
      end
  | Clone h =>
      match live_handle s h with
      | Some hd =>
          let s1 := inc_rc s (h_slot hd) in
          let n := length (handles s1) in
          (set_handles s1 (handles s1 ++ [mkHandle (h_slot hd) true (h_gen hd)]), OHandle n (h_slot hd))
      | None => (s, ONone)
      end
  | Drop h =>
      match live_handle s h with
      | Some hd => (kill_handle (drop_top s (h_slot hd)) h, OUnit)
      | None => (s, ONone)
      end
  | SetVal h z =>
      match live_handle s h with
      | Some hd => if negb (alive s) then (s, OFault) else
          (set_slots s (upd (slots s) (h_slot hd) (fun x => mkSlot z (s_refs x) (s_rc x) (s_pooled x))), OUnit)
      | None => (s, ONone)
      end
  | Link h1 h2 =>
      match live_handle s h1, live_handle s h2 with
      | Some a, Some b => if negb (alive s) then (s, OFault) else
          let s1 := inc_rc s (h_slot b) in
          (set_slots s1 (upd (slots s1) (h_slot a) (fun x => mkSlot (s_val x) (s_refs x ++ [h_slot b]) (s_rc x) (s_pooled x))), OUnit)
      | _, _ => (s, ONone)
      end
  | Unlink h k =>
      match live_handle s h with
      | Some hd => if negb (alive s) then (s, OFault) else
          match nth_error (slots s) (h_slot hd) with
          | Some x =>
              match nth_error (s_refs x) k with
              | Some j =>
                  let s1 := set_slots s (upd (slots s) (h_slot hd)
                               (fun y => mkSlot (s_val y) (firstn k (s_refs y) ++ skipn (S k) (s_refs y)) (s_rc y) (s_pooled y))) in
                  (drop_top s1 j, OBool true)
              | None => (s, OBool false)
              end
          | None => (s, OFault)
          end
      | None => (s, ONone)
      end
  | ClearRefs h =>
      match live_handle s h with
      | Some hd => if negb (alive s) then (s, OFault) else
          match nth_error (slots s) (h_slot hd) with
          | Some x =>
              let s1 := set_slots s (upd (slots s) (h_slot hd) (fun y => mkSlot (s_val y) [] (s_rc y) (s_pooled y))) in
              (fold_left drop_top (s_refs x) s1, OUnit)
          | None => (s, OFault)
          end
      | None => (s, ONone)
      end
  | Read h =>
      match live_handle s h with
      | Some hd => if negb (alive s) then (s, OFault) else
          match nth_error (slots s) (h_slot hd) with
          | Some x => (s, OObj (s_val x) (s_refs x))
          | None => (s, OFault)
          end
      | None => (s, ONone)
      end
  | Collect => if alive s then (collect s, OUnit) else (s, ONone)
  | SetThr n => if alive s then
      (mkSpace (slots s) (gens s) (free s) (guards s) (gpool s) (net s) (Z.of_N n) (handles s) (alive s)
               (rc0_events s) (fuel_err s), OUnit) else (s, ONone)
  | Stats => if alive s then (s, OStats (length (slots s)) (length (free s))) else (s, ONone)
  | DropHeap => if alive s then
      (mkSpace (slots s) (gens s) (free s) (guards s) (gpool s) (net s) (thr s) (handles s) false
               (rc0_events s) (fuel_err s), OUnit) else (s, ONone)
  end.

Definition run_from (s : space) (os : list op) : space * list out :=
  fold_left (fun acc o => let '(s1, outs) := acc in let '(s2, r) := step s1 o in (s2, outs ++ [r])) os (s, []).
Definition run (os : list op) : space * list out := run_from init os.
Definition exec (s : space) (os : list op) : space := fold_left (fun s o => fst (step s o)) os s.

(* ghost classification of an operation, evaluated in the state before it *)
Definition stale_handle (s : space) (h : nat) : bool :=
  match live_handle s h with
  | Some hd => negb (Nat.eqb (h_gen hd) (gen_at s (h_slot hd)))
  | None => false
  end.
Definition op_handles (o : op) : list nat :=
  match o with
  | GuardClone _ h | GuardMove _ h | Unguard _ h | Clone h | Drop h | SetVal h _
  | Unlink h _ | ClearRefs h | Read h => [h]
  | Link a b => [a; b]
  | _ => []
  end.
Definition op_derefs (o : op) : bool :=
  match o with SetVal _ _ | Link _ _ | Unlink _ _ | ClearRefs _ | Read _ => true | _ => false end.
(* known-finding classes (KNOWN_FINDINGS.json): 1 = stale handle used, 2 = deref after heap drop *)
Definition op_class (s : space) (o : op) : list nat :=
  (if existsb (stale_handle s) (op_handles o) then [1] else []) ++
  (if negb (alive s) && op_derefs o && existsb (fun h => match live_handle s h with Some _ => true | None => false end) (op_handles o)
   then [2] else []).
