(* A collection keeps exactly the guard-reachable objects, with their
   contents, and resets and pools every other object. *)
From Coq Require Import List Bool Arith NArith ZArith Lia Permutation.
From TsrunV Require Import Gc.Model Gc.Mark Gc.Wf.
Import ListNotations.

(* y is x up to the reference count *)
Definition data_eq (x y : slot) : Prop :=
  s_val y = s_val x /\ s_refs y = s_refs x /\ s_pooled y = s_pooled x.

Lemma data_eq_refl x : data_eq x x.
Proof. repeat split. Qed.
Lemma data_eq_trans x y z : data_eq x y -> data_eq y z -> data_eq x z.
Proof. unfold data_eq. intuition congruence. Qed.

Lemma upd_data_eq sl i f j x :
  (forall y, data_eq y (f y)) -> nth_error sl j = Some x ->
  exists y, nth_error (upd sl i f) j = Some y /\ data_eq x y.
Proof.
  intros Hf E. destruct (Nat.eq_dec i j) as [->|N].
  - rewrite nth_error_upd_same, E. simpl. eauto.
  - rewrite nth_error_upd_other; auto. exists x; split; auto using data_eq_refl.
Qed.

Lemma dec_rc_data_eq y : data_eq y (dec_rc y).
Proof. unfold data_eq. rewrite dec_rc_val, dec_rc_refs, dec_rc_pooled. auto. Qed.

Lemma fold_drop_nested_data_eq l : forall sl j x, nth_error sl j = Some x ->
  exists y, nth_error (fold_left drop_nested l sl) j = Some y /\ data_eq x y.
Proof.
  induction l as [|k l IH]; intros sl j x E; simpl.
  - exists x; split; auto using data_eq_refl.
  - destruct (upd_data_eq sl k dec_rc j x dec_rc_data_eq E) as [y [Ey Dy]].
    destruct (IH _ _ _ Ey) as [z [Ez Dz]]. exists z; split; auto. eapply data_eq_trans; eauto.
Qed.

Lemma reset_slot_spec sl i f j x : nth_error sl j = Some x ->
  exists y, nth_error (reset_slot sl i f) j = Some y /\ s_pooled y = s_pooled x /\
    (j <> i -> data_eq x y) /\
    (j = i -> s_val y = 0%Z /\ s_refs y = []).
Proof.
  intros E. unfold reset_slot. destruct (nth_error sl i) as [xi|] eqn:Ei.
  - destruct (fold_drop_nested_data_eq (s_refs xi) sl j x E) as [y [Ey [Dv [Dr Dp]]]].
    destruct (Nat.eq_dec i j) as [->|N].
    + rewrite nth_error_upd_same, Ey. simpl. eexists; split; [reflexivity|]. simpl.
      split; auto. split; [congruence|auto].
    + rewrite nth_error_upd_other; auto. exists y. repeat split; auto; congruence.
  - exists x. split; auto. split; auto. split; [intros _; apply data_eq_refl|].
    intros ->. congruence.
Qed.

Lemma fold_reset_spec v f : forall sl j x, nth_error sl j = Some x ->
  exists y, nth_error (fold_left (fun sl i => reset_slot sl i f) v sl) j = Some y /\
    s_pooled y = s_pooled x /\
    (~ In j v -> data_eq x y) /\
    (In j v -> s_val y = 0%Z /\ s_refs y = []).
Proof.
  induction v as [|i v IH]; intros sl j x E; simpl.
  - exists x. split; auto. split; auto. split; [intros _; apply data_eq_refl|intros []].
  - destruct (reset_slot_spec sl i f j x E) as [y [Ey [Py [Dn De]]]].
    destruct (IH _ _ _ Ey) as [z [Ez [Pz [Dzn Dze]]]].
    exists z. split; auto. split; [congruence|]. split.
    + intros Hn. eapply data_eq_trans; [apply Dn|apply Dzn]; intuition.
    + intros [->|Hin]; auto.
      destruct (in_dec Nat.eq_dec j v) as [Hv|Hv]; auto.
      destruct (De eq_refl) as [V R]. destruct (Dzn Hv) as [V' [R' _]]. split; congruence.
Qed.

Lemma pool_slot_spec s i j x : nth_error (slots s) j = Some x ->
  exists y, nth_error (slots (pool_slot s i)) j = Some y /\ s_val y = s_val x /\ s_refs y = s_refs x /\
    (j = i -> s_pooled y = true) /\ (j <> i -> s_pooled y = s_pooled x).
Proof.
  intros E. unfold pool_slot. destruct (pooled_at (slots s) i) eqn:Ep.
  - exists x. repeat split; auto. intros ->. unfold pooled_at in Ep. rewrite E in Ep. auto.
  - simpl. destruct (Nat.eq_dec i j) as [->|N].
    + rewrite nth_error_upd_same, E. simpl. eexists; split; [reflexivity|]. simpl. repeat split; auto; congruence.
    + rewrite nth_error_upd_other; auto. exists x. repeat split; auto; congruence.
Qed.

Lemma fold_pool_spec v : forall s j x, nth_error (slots s) j = Some x ->
  exists y, nth_error (slots (fold_left pool_slot v s)) j = Some y /\ s_val y = s_val x /\ s_refs y = s_refs x /\
    (In j v -> s_pooled y = true) /\ (~ In j v -> s_pooled y = s_pooled x).
Proof.
  induction v as [|i v IH]; intros s j x E; simpl.
  - exists x. intuition.
  - destruct (pool_slot_spec s i j x E) as [y [Ey [V [R [Pe Pn]]]]].
    destruct (IH _ _ _ Ey) as [z [Ez [Vz [Rz [Pze Pzn]]]]].
    exists z. split; auto. split; [congruence|]. split; [congruence|]. split.
    + intros [->|Hin]; auto. destruct (in_dec Nat.eq_dec j v) as [Hv|Hv]; auto.
      rewrite (Pzn Hv). auto.
    + intros Hn. rewrite Pzn by intuition. apply Pn. intuition.
Qed.

Lemma guards_fold_pool v : forall s, guards (fold_left pool_slot v s) = guards s.
Proof.
  induction v as [|i v IH]; intros s; simpl; auto. rewrite IH. unfold pool_slot.
  destruct (pooled_at (slots s) i); reflexivity.
Qed.

Lemma in_victims sl m i :
  In i (victims sl m) <-> i < length sl /\ is_marked m i = false /\ pooled_at sl i = false.
Proof.
  unfold victims. rewrite filter_In, in_seq, andb_true_iff, !negb_true_iff. intuition lia.
Qed.

Lemma sweep_slot_spec s m j x : nth_error (slots s) j = Some x ->
  exists y, nth_error (slots (sweep s m)) j = Some y /\
    (In j (victims (slots s) m) -> s_pooled y = true /\ s_val y = 0%Z /\ s_refs y = []) /\
    (~ In j (victims (slots s) m) -> data_eq x y).
Proof.
  intros E. unfold sweep.
  destruct (fold_reset_spec (victims (slots s) m) (fun _ => 0%N) (slots s) j x E) as [y [Ey [Py [Dn De]]]].
  destruct (fold_pool_spec (victims (slots s) m) (set_slots s (fold_left (fun sl i => reset_slot sl i (fun _ => 0%N)) (victims (slots s) m) (slots s))) j y Ey)
    as [z [Ez [Vz [Rz [Pze Pzn]]]]].
  exists z. split; auto. split.
  - intros Hin. destruct (De Hin) as [V R]. split; auto. split; congruence.
  - intros Hn. destruct (Dn Hn) as [V [R P]]. unfold data_eq. rewrite (Pzn Hn). intuition congruence.
Qed.

Lemma guards_sweep s m : guards (sweep s m) = guards s.
Proof. unfold sweep. rewrite guards_fold_pool. reflexivity. Qed.

Section Exact.
  Variable s : space.
  Variable m : list bool.
  Hypothesis W : wf s.
  Hypothesis M : mark s = Some m.
  Let s' := sweep s m.

  Lemma marked_iff i : is_marked m i = true <-> Reach s i.
  Proof. apply mark_exact; auto. Qed.

  Lemma Reach_nonpooled i : Reach s i -> pooled_at (slots s) i = false.
  Proof. intros H; inversion H; auto. Qed.

  Lemma sweep_keeps i x : Reach s i -> nth_error (slots s) i = Some x ->
    exists y, nth_error (slots s') i = Some y /\ data_eq x y.
  Proof.
    intros R E. destruct (sweep_slot_spec s m i x E) as [y [Ey [_ Hn]]]. exists y; split; auto.
    apply Hn. rewrite in_victims. intros [_ [U _]]. apply marked_iff in R. congruence.
  Qed.

  Lemma sweep_pooled_iff i : i < length (slots s) ->
    (pooled_at (slots s') i = false <-> Reach s i).
  Proof.
    intros Li. destruct (nth_error (slots s) i) as [x|] eqn:E; [|apply nth_error_None in E; lia].
    destruct (sweep_slot_spec s m i x E) as [y [Ey [Hv Hn]]].
    unfold pooled_at at 1. unfold s'. rewrite Ey.
    destruct (is_marked m i) eqn:Mi.
    - assert (R : Reach s i) by (apply marked_iff; auto).
      split; auto. intros _. destruct Hn as [_ [_ P]].
      + rewrite in_victims. intros [_ [U _]]. congruence.
      + rewrite P. pose proof (Reach_nonpooled i R) as Np. unfold pooled_at in Np. rewrite E in Np. auto.
    - split.
      + intros Py. exfalso. destruct (pooled_at (slots s) i) eqn:Pi.
        * destruct Hn as [_ [_ P]]; [rewrite in_victims; intros [_ [_ X]]; congruence|].
          unfold pooled_at in Pi. rewrite E in Pi. congruence.
        * destruct Hv as [P _]; [rewrite in_victims; auto|]. congruence.
      + intros R. apply marked_iff in R. congruence.
  Qed.

  Lemma sweep_resets i : i < length (slots s) -> ~ Reach s i -> pooled_at (slots s) i = false ->
    exists y, nth_error (slots s') i = Some y /\ s_pooled y = true /\ s_val y = 0%Z /\ s_refs y = [].
  Proof.
    intros Li NR Np. destruct (nth_error (slots s) i) as [x|] eqn:E; [|apply nth_error_None in E; lia].
    destruct (sweep_slot_spec s m i x E) as [y [Ey [Hv _]]]. exists y. split; auto. apply Hv.
    rewrite in_victims. repeat split; auto. destruct (is_marked m i) eqn:Mi; auto.
    exfalso. apply NR, marked_iff; auto.
  Qed.

  Lemma Reach_lt i : Reach s i -> i < length (slots s).
  Proof. intros R. apply nonpooled_lt. apply Reach_nonpooled; auto. Qed.

  Lemma length_s' : length (slots s') = length (slots s).
  Proof. apply length_slots_sweep. Qed.

  Lemma sweep_reach_iff i : Reach s' i <-> Reach s i.
  Proof.
    unfold Reach. fold s'. unfold s'. rewrite guards_sweep. fold s'. split.
    - intros R. assert (Np : nonpooled (slots s') i) by (inversion R; auto).
      apply sweep_pooled_iff; auto. rewrite <- length_s'. apply nonpooled_lt; auto.
    - induction 1 as [r Hr Np|i j Ri IH E Np].
      + assert (R : Reach s r) by (apply reach_root; auto).
        apply reach_root; auto. apply sweep_pooled_iff; auto. apply Reach_lt; auto.
      + assert (Rj : Reach s j) by (eapply reach_step; eauto).
        apply (reach_step _ _ i j); auto.
        * destruct E as [x [Ex Hj]]. destruct (sweep_keeps i x Ri Ex) as [y [Ey [_ [Rf _]]]].
          exists y. split; auto. rewrite Rf. auto.
        * apply sweep_pooled_iff; auto. apply Reach_lt; auto.
  Qed.
End Exact.

(* live_objects = total - free_list.len() counts the non-pooled slots *)
Lemma filter_partition_length {A} (p : A -> bool) l :
  length l = length (filter p l) + length (filter (fun x => negb (p x)) l).
Proof. induction l as [|x l IH]; simpl; auto. destruct (p x); simpl; lia. Qed.

Lemma live_count s : wf s ->
  length (slots s) - length (free s) =
  length (filter (fun i => negb (pooled_at (slots s) i)) (seq 0 (length (slots s)))).
Proof.
  intros [R G F N P H].
  assert (Pm : Permutation (free s) (filter (fun i => pooled_at (slots s) i) (seq 0 (length (slots s))))).
  { apply NoDup_Permutation; auto.
    - apply NoDup_filter, seq_NoDup.
    - intros i. rewrite filter_In, in_seq. split.
      + intros Hi. assert (i < length (slots s)) by (rewrite Forall_forall in F; auto).
        split; [lia|]. apply P; auto.
      + intros [Hi Hp]. apply P; auto; lia. }
  apply Permutation_length in Pm.
  pose proof (filter_partition_length (fun i => pooled_at (slots s) i) (seq 0 (length (slots s)))) as Q.
  rewrite seq_length in Q. lia.
Qed.

Theorem collect_exact s : wf s -> fuel_err (collect s) = false -> fuel_err s = false ->
  let s' := collect s in
  wf s' /\ length (slots s') = length (slots s) /\
  (forall i, Reach s' i <-> Reach s i) /\
  (forall i, i < length (slots s) -> (pooled_at (slots s') i = false <-> Reach s i)) /\
  (forall i x, Reach s i -> nth_error (slots s) i = Some x ->
     exists y, nth_error (slots s') i = Some y /\ data_eq x y) /\
  (forall i, i < length (slots s) -> ~ Reach s i -> pooled_at (slots s) i = false ->
     exists y, nth_error (slots s') i = Some y /\ s_pooled y = true /\ s_val y = 0%Z /\ s_refs y = []) /\
  (forall i, i < length (slots s') -> (In i (free s') <-> ~ Reach s i)) /\
  net s' = 0%Z.
Proof.
  intros W Hf Hf0. pose proof (wf_collect s W) as W'. pose proof (length_slots_collect s) as L.
  unfold collect in *. destruct (mark s) as [m|] eqn:M; [|simpl in Hf; discriminate].
  simpl. split; [exact W'|]. split; [exact L|].
  split; [apply sweep_reach_iff; auto|].
  split; [apply sweep_pooled_iff; auto|].
  split; [apply sweep_keeps; auto|].
  split; [apply sweep_resets; auto|].
  split; auto.
  intros i Li. pose proof (wf_free_pooled _ W' i Li) as P. simpl in P, Li. rewrite P.
  rewrite length_slots_sweep in Li.
  assert (Q : pooled_at (slots (sweep s m)) i = false <-> Reach s i) by (apply sweep_pooled_iff; auto).
  destruct (pooled_at (slots (sweep s m)) i); intuition congruence.
Qed.
