(* Between collections, an operation changes the contents of no live object
   other than the one it writes through its handle -- unless Gc::drop takes the
   "count reached zero" branch (ghost counter rc0_events). *)
From Coq Require Import List Bool Arith NArith ZArith Lia.
From TsrunV Require Import Gc.Model Gc.Mark Gc.Wf Gc.Collect.
Import ListNotations.

Definition keeps (sl sl' : list slot) : Prop :=
  forall i x, nth_error sl i = Some x -> s_pooled x = false ->
              exists y, nth_error sl' i = Some y /\ data_eq x y.

Lemma keeps_refl sl : keeps sl sl.
Proof. intros i x E _. exists x; split; auto using data_eq_refl. Qed.

Lemma keeps_trans a b c : keeps a b -> keeps b c -> keeps a c.
Proof.
  intros H1 H2 i x E P. destruct (H1 i x E P) as [y [Ey Dy]].
  assert (Py : s_pooled y = false) by (destruct Dy as [_ [_ Q]]; congruence).
  destruct (H2 i y Ey Py) as [z [Ez Dz]]. exists z; split; auto. eapply data_eq_trans; eauto.
Qed.

Lemma keeps_upd sl i f : (forall y, data_eq y (f y)) -> keeps sl (upd sl i f).
Proof. intros Hf j x E _. apply upd_data_eq; auto. Qed.

(* an update at k leaves every other slot alone *)
Lemma keeps_upd_other sl k f : forall i x, i <> k -> nth_error sl i = Some x ->
  exists y, nth_error (upd sl k f) i = Some y /\ data_eq x y.
Proof.
  intros i x N E. rewrite nth_error_upd_other by auto. exists x; split; auto using data_eq_refl.
Qed.

Lemma rc0_pool_slot s i : rc0_events (pool_slot s i) = rc0_events s.
Proof. unfold pool_slot. destruct (pooled_at (slots s) i); reflexivity. Qed.

Lemma rc0_drop_top_mono s i : rc0_events s <= rc0_events (drop_top s i).
Proof.
  unfold drop_top. destruct (negb (alive s)); auto.
  destruct (nth_error (slots s) i) as [x|]; auto. destruct (s_pooled x); auto.
  destruct (N.eqb _ 0); simpl; auto. rewrite rc0_pool_slot. simpl. lia.
Qed.

Lemma keeps_drop_top s i : rc0_events (drop_top s i) = rc0_events s -> keeps (slots s) (slots (drop_top s i)).
Proof.
  unfold drop_top. destruct (negb (alive s)); [intros; apply keeps_refl|].
  destruct (nth_error (slots s) i) as [x|]; [|intros; apply keeps_refl].
  destruct (s_pooled x); [intros; apply keeps_refl|].
  destruct (N.eqb _ 0); simpl.
  - rewrite rc0_pool_slot. simpl. lia.
  - intros _. apply keeps_upd. intros y. repeat split.
Qed.

Lemma rc0_fold_drop_top_mono l : forall s, rc0_events s <= rc0_events (fold_left drop_top l s).
Proof.
  induction l as [|i l IH]; intros s; simpl; auto.
  pose proof (rc0_drop_top_mono s i). pose proof (IH (drop_top s i)). lia.
Qed.

Lemma keeps_fold_drop_top l : forall s,
  rc0_events (fold_left drop_top l s) = rc0_events s -> keeps (slots s) (slots (fold_left drop_top l s)).
Proof.
  induction l as [|i l IH]; intros s H; simpl in *; [apply keeps_refl|].
  pose proof (rc0_drop_top_mono s i). pose proof (rc0_fold_drop_top_mono l (drop_top s i)).
  apply keeps_trans with (slots (drop_top s i)); [apply keeps_drop_top; lia|apply IH; lia].
Qed.

Lemma keeps_inc_rc s i : keeps (slots s) (slots (inc_rc s i)).
Proof.
  unfold inc_rc. destruct (negb (alive s)); [apply keeps_refl|]. simpl.
  apply keeps_upd. intros y. destruct (s_pooled y) eqn:E; repeat split; auto.
Qed.

Lemma rc0_inc_rc s i : rc0_events (inc_rc s i) = rc0_events s.
Proof. unfold inc_rc. destruct (negb (alive s)); reflexivity. Qed.

Lemma keeps_reset_pooled sl i f : pooled_at sl i = true -> keeps sl (reset_slot sl i f).
Proof.
  intros Hp j x E Px. destruct (reset_slot_spec sl i f j x E) as [y [Ey [_ [Dn _]]]].
  exists y; split; auto. apply Dn. intros ->. unfold pooled_at in Hp. rewrite E in Hp. congruence.
Qed.

(* the operation (possibly) runs a collection *)
Definition collects (s : space) (o : op) : bool :=
  match o with
  | Collect => true
  | Alloc _ => (0 <? thr s)%Z && (thr s <=? net s + 1)%Z
  | _ => false
  end.

(* the operation writes the payload of slot i through a handle *)
Definition writes (s : space) (o : op) (i : nat) : Prop :=
  match o with
  | SetVal h _ | Link h _ | Unlink h _ | ClearRefs h =>
      exists hd, live_handle s h = Some hd /\ h_slot hd = i
  | _ => False
  end.

Lemma alloc_internal_keeps s : wf s ->
  ((0 <? thr s)%Z && (thr s <=? net s + 1)%Z)%bool = false ->
  keeps (slots s) (slots (fst (alloc_internal s))).
Proof.
  intros W NC. unfold alloc_internal. simpl. rewrite NC. simpl.
  destruct (free s) as [|k fr] eqn:Ef; simpl; intros i x E Px.
  - assert (Li : i < length (slots s)) by (apply nth_error_Some; congruence).
    rewrite nth_error_app1 by auto. exists x; split; auto using data_eq_refl.
  - assert (Pk : pooled_at (slots s) k = true).
    { apply (wf_free_pooled s W).
      - pose proof (wf_free_lt s W) as F. rewrite Ef in F. inversion F; auto.
      - rewrite Ef. left; auto. }
    assert (Nik : i <> k).
    { intros ->. unfold pooled_at in Pk. rewrite E in Pk. congruence. }
    destruct (keeps_reset_pooled (slots s) k (fun r => r) Pk i x E Px) as [y [Ey Dy]].
    rewrite nth_error_upd_other by auto. exists y; split; auto.
Qed.

Ltac keep_id := intros; eexists; split; [eassumption|apply data_eq_refl].

Theorem frame_step s o : wf s -> collects s o = false ->
  rc0_events (fst (step s o)) = rc0_events s ->
  forall i x, nth_error (slots s) i = Some x -> s_pooled x = false -> ~ writes s o i ->
  exists y, nth_error (slots (fst (step s o))) i = Some y /\ data_eq x y.
Proof.
  intros W NC. destruct o; simpl in *; try discriminate.
  - keep_id.
  - destruct (live_guard s g); simpl; keep_id.
  - (* Alloc without collection *)
    destruct (live_guard s g); simpl; [|keep_id]. destruct (negb (alive s)); simpl; [keep_id|].
    pose proof (alloc_internal_keeps s W NC) as K.
    destruct (alloc_internal s) as [s1 k]. simpl.
    intros _ i x E Px _. destruct (K i x E Px) as [y [Ey Dy]].
    destruct (upd_data_eq (slots s1) k (fun x0 => mkSlot (s_val x0) (s_refs x0) (s_rc x0 + 1) (s_pooled x0)) i y) as [z [Ez Dz]]; auto.
    { intros w. repeat split. }
    exists z; split; auto. eapply data_eq_trans; eauto.
  - (* GuardClone *)
    destruct (live_guard s g); simpl; [|keep_id].
    destruct (live_handle s h) as [hd|]; simpl; [|keep_id].
    intros H i x E Px _.
    set (s1 := inc_rc s (h_slot hd)) in *.
    set (s2 := if (alive s1 && negb (pooled_at (slots s1) (h_slot hd)))%bool then push_root s1 g (h_slot hd) else s1) in *.
    assert (S2 : slots s2 = slots s1 /\ rc0_events s2 = rc0_events s1) by (unfold s2; destruct (_ && _)%bool; auto).
    destruct S2 as [Sl Rc].
    assert (K : keeps (slots s) (slots (drop_top s2 (h_slot hd)))).
    { apply keeps_trans with (slots s2).
      - rewrite Sl. apply keeps_inc_rc.
      - apply keeps_drop_top. rewrite H, Rc. unfold s1. symmetry. apply rc0_inc_rc. }
    apply K; auto.
  - (* GuardMove *)
    destruct (live_guard s g); simpl; [|keep_id].
    destruct (live_handle s h) as [hd|]; simpl; [|keep_id].
    intros H i x E Px _.
    set (s2 := if (alive s && negb (pooled_at (slots s) (h_slot hd)))%bool then push_root s g (h_slot hd) else s) in *.
    assert (S2 : slots s2 = slots s /\ rc0_events s2 = rc0_events s) by (unfold s2; destruct (_ && _)%bool; auto).
    destruct S2 as [Sl Rc].
    assert (K : keeps (slots s) (slots (drop_top s2 (h_slot hd)))).
    { rewrite <- Sl. apply keeps_drop_top. rewrite H. auto. }
    apply K; auto.
  - destruct (live_guard s g) as [gd|]; simpl; [|keep_id].
    destruct (live_handle s h) as [hd|]; simpl; [|keep_id].
    destruct (position (g_roots gd) (h_slot hd)); simpl; keep_id.
  - destruct (live_guard s g); simpl; keep_id.
  - (* Clone *)
    destruct (live_handle s h) as [hd|]; simpl; [|keep_id].
    intros _ i x E Px _. apply (keeps_inc_rc s (h_slot hd)); auto.
  - (* Drop *)
    destruct (live_handle s h) as [hd|]; simpl; [|keep_id].
    intros H i x E Px _. apply (keeps_drop_top s (h_slot hd)); auto.
  - (* SetVal *)
    destruct (live_handle s h) as [hd|]; simpl; [|keep_id]. destruct (negb (alive s)); simpl; [keep_id|].
    intros _ i x E Px Nw. apply keeps_upd_other; auto. intros ->. apply Nw. eauto.
  - (* Link *)
    destruct (live_handle s h1) as [a|]; simpl; [|keep_id].
    destruct (live_handle s h2) as [b|]; simpl; [|keep_id]. destruct (negb (alive s)); simpl; [keep_id|].
    intros _ i x E Px Nw.
    destruct (keeps_inc_rc s (h_slot b) i x E Px) as [y [Ey Dy]].
    destruct (keeps_upd_other (slots (inc_rc s (h_slot b))) (h_slot a)
                (fun x0 => mkSlot (s_val x0) (s_refs x0 ++ [h_slot b]) (s_rc x0) (s_pooled x0)) i y) as [z [Ez Dz]]; auto.
    { intros ->. apply Nw. eauto. }
    exists z; split; auto. eapply data_eq_trans; eauto.
  - (* Unlink *)
    destruct (live_handle s h) as [hd|]; simpl; [|keep_id]. destruct (negb (alive s)); simpl; [keep_id|].
    destruct (nth_error (slots s) (h_slot hd)) as [xh|]; simpl; [|keep_id].
    destruct (nth_error (s_refs xh) i) as [j|]; simpl; [|keep_id].
    intros H k x E Px Nw.
    set (s1 := set_slots s _) in *.
    assert (Nk : k <> h_slot hd) by (intros ->; apply Nw; eauto).
    destruct (keeps_upd_other (slots s) (h_slot hd)
       (fun y => mkSlot (s_val y) (firstn i (s_refs y) ++ skipn (S i) (s_refs y)) (s_rc y) (s_pooled y)) k x Nk E)
      as [y [Ey Dy]].
    assert (Py : s_pooled y = false) by (destruct Dy as [_ [_ Q]]; congruence).
    destruct (keeps_drop_top s1 j H k y Ey Py) as [z [Ez Dz]].
    exists z; split; auto. eapply data_eq_trans; eauto.
  - (* ClearRefs *)
    destruct (live_handle s h) as [hd|]; simpl; [|keep_id]. destruct (negb (alive s)); simpl; [keep_id|].
    destruct (nth_error (slots s) (h_slot hd)) as [xh|]; simpl; [|keep_id].
    intros H k x E Px Nw.
    set (s1 := set_slots s _) in *.
    assert (Nk : k <> h_slot hd) by (intros ->; apply Nw; eauto).
    destruct (keeps_upd_other (slots s) (h_slot hd)
       (fun y => mkSlot (s_val y) [] (s_rc y) (s_pooled y)) k x Nk E) as [y [Ey Dy]].
    assert (Py : s_pooled y = false) by (destruct Dy as [_ [_ Q]]; congruence).
    destruct (keeps_fold_drop_top (s_refs xh) s1 H k y Ey Py) as [z [Ez Dz]].
    exists z; split; auto. eapply data_eq_trans; eauto.
  - destruct (live_handle s h) as [hd|]; simpl; [|keep_id]. destruct (negb (alive s)); simpl; [keep_id|].
    destruct (nth_error (slots s) (h_slot hd)); simpl; keep_id.
  - destruct (alive s); simpl; keep_id.
  - destruct (alive s); simpl; keep_id.
  - destruct (alive s); simpl; keep_id.
Qed.
