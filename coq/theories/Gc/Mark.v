(* The marking loop of Space::mark computes exactly guard reachability. *)
From Coq Require Import List Bool Arith NArith ZArith Lia.
From TsrunV Require Import Gc.Model.
Import ListNotations.

(* ---- upd ---- *)
Lemma length_upd {A} (l : list A) i f : length (upd l i f) = length l.
Proof. revert i; induction l as [|x l IH]; intros [|i]; simpl; auto. Qed.

Lemma nth_error_upd_same {A} (l : list A) i f :
  nth_error (upd l i f) i = option_map f (nth_error l i).
Proof. revert i; induction l as [|x l IH]; intros [|i]; simpl; auto. Qed.

Lemma nth_error_upd_other {A} (l : list A) i j f : i <> j ->
  nth_error (upd l i f) j = nth_error l j.
Proof.
  revert i j; induction l as [|x l IH]; intros [|i] [|j] H; simpl; auto; try congruence.
Qed.

Lemma Forall_upd {A} (P : A -> Prop) l i f :
  Forall P l -> (forall x, P x -> P (f x)) -> Forall P (upd l i f).
Proof.
  intros H Hf. revert i. induction H as [|x l Hx Hl IH]; intros [|i]; simpl; auto.
Qed.

Lemma nth_upd_same (m : list bool) i b : i < length m -> nth i (upd m i (fun _ => b)) false = b.
Proof. revert i; induction m as [|x m IH]; intros [|i] H; simpl in *; try lia; auto. apply IH; lia. Qed.

Lemma nth_upd_other (m : list bool) i j f : i <> j -> nth j (upd m i f) false = nth j m false.
Proof.
  revert i j; induction m as [|x m IH]; intros [|i] [|j] H; simpl; auto; try congruence.
Qed.

Lemma nth_overflow_false (m : list bool) i : length m <= i -> nth i m false = false.
Proof. intros H. apply nth_overflow; auto. Qed.

Lemma is_marked_set m p i :
  is_marked (set_mark m p) i = true <-> (i = p /\ p < length m) \/ is_marked m i = true.
Proof.
  unfold is_marked, set_mark. destruct (Nat.eq_dec p i) as [->|N].
  - destruct (Nat.lt_ge_cases i (length m)) as [L|G].
    + rewrite nth_upd_same; auto. tauto.
    + rewrite nth_overflow_false by (rewrite length_upd; lia).
      rewrite (nth_overflow_false m) by lia. split; [discriminate|]. intros [[_ ?]|?]; [lia|discriminate].
  - rewrite nth_upd_other; auto. split; auto. intros [[? _]|?]; auto; congruence.
Qed.

(* ---- reachability from guard roots over non-pooled objects ---- *)
Definition nonpooled (sl : list slot) (i : nat) : Prop := pooled_at sl i = false.
Definition edge (sl : list slot) (i j : nat) : Prop :=
  exists x, nth_error sl i = Some x /\ In j (s_refs x).

Inductive reach (sl : list slot) (R : list nat) : nat -> Prop :=
| reach_root r : In r R -> nonpooled sl r -> reach sl R r
| reach_step i j : reach sl R i -> edge sl i j -> nonpooled sl j -> reach sl R j.

Definition Reach (s : space) : nat -> Prop := reach (slots s) (live_roots (guards s)).

Lemma nonpooled_lt sl i : nonpooled sl i -> i < length sl.
Proof.
  unfold nonpooled, pooled_at. intros H.
  destruct (nth_error sl i) eqn:E; [|discriminate]. apply nth_error_Some. congruence.
Qed.

Record mark_inv (sl : list slot) (R st : list nat) (m : list bool) : Prop := {
  mi_len : length m = length sl;
  mi_sound : forall i, is_marked m i = true -> reach sl R i;
  mi_stack : forall i, In i st -> reach sl R i;
  mi_closed : forall i j, is_marked m i = true -> edge sl i j -> nonpooled sl j ->
                          is_marked m j = true \/ In j st;
  mi_roots : forall r, In r R -> nonpooled sl r -> is_marked m r = true \/ In r st
}.

Lemma mark_loop_correct sl R : forall fuel st m m',
  mark_inv sl R st m -> mark_loop fuel sl st m = Some m' ->
  length m' = length sl /\ forall i, is_marked m' i = true <-> reach sl R i.
Proof.
  induction fuel as [|f IH]; intros st m m' I H.
  - destruct st; simpl in H; [|discriminate]. inversion H; subst m'.
    destruct I as [L S _ C Rt]. split; auto. intros i; split; auto.
    induction 1 as [r Hr Np|i j _ IHr E Np].
    + destruct (Rt r Hr Np) as [?|[]]; auto.
    + destruct (C i j IHr E Np) as [?|[]]; auto.
  - destruct st as [|p st]; simpl in H.
    + inversion H; subst m'. destruct I as [L S _ C Rt]. split; auto. intros i; split; auto.
      induction 1 as [r Hr Np|i j _ IHr E Np].
      * destruct (Rt r Hr Np) as [?|[]]; auto.
      * destruct (C i j IHr E Np) as [?|[]]; auto.
    + destruct (is_marked m p) eqn:Mp.
      * apply (IH st m m'); auto. destruct I as [L S St C Rt]. constructor; auto.
        -- intros i Hi. apply St. right; auto.
        -- intros i j Mi E Np. destruct (C i j Mi E Np) as [?|[->|?]]; auto.
        -- intros r Hr Np. destruct (Rt r Hr Np) as [?|[->|?]]; auto.
      * destruct (nth_error sl p) as [x|] eqn:Ep.
        -- apply (IH _ _ m' ) in H; auto. destruct I as [L S St C Rt].
           assert (Pp : reach sl R p) by (apply St; left; auto).
           assert (Lp : p < length m).
           { rewrite L. apply nth_error_Some. congruence. }
           constructor.
           ++ unfold set_mark. rewrite length_upd. auto.
           ++ intros i Hi. apply is_marked_set in Hi as [[-> _]|Hi]; auto.
           ++ intros i Hi. apply in_app_or in Hi as [Hi|Hi].
              ** apply in_rev in Hi. apply filter_In in Hi as [Hi Hc].
                 apply andb_true_iff in Hc as [_ Hc]. apply negb_true_iff in Hc.
                 apply (reach_step sl R p i); auto. exists x; auto.
              ** apply St. right; auto.
           ++ intros i j Mi E Np. apply is_marked_set in Mi as [[-> _]|Mi].
              ** destruct E as [y [Ey Hj]]. rewrite Ep in Ey. inversion Ey; subst y.
                 destruct (is_marked (set_mark m p) j) eqn:Mj; auto.
                 right. apply in_or_app. left. apply -> in_rev. apply filter_In. split; auto.
                 rewrite Mj. unfold nonpooled in Np. rewrite Np. reflexivity.
              ** destruct (C i j Mi E Np) as [Mj|[<-|Hj]].
                 --- left. apply is_marked_set. auto.
                 --- left. apply is_marked_set. auto.
                 --- right. apply in_or_app. auto.
           ++ intros r Hr Np. destruct (Rt r Hr Np) as [Mr|[<-|Hr']].
              ** left. apply is_marked_set. auto.
              ** left. apply is_marked_set. auto.
              ** right. apply in_or_app. auto.
        -- apply (IH st m m'); auto. destruct I as [L S St C Rt].
           assert (Pp : reach sl R p) by (apply St; left; auto).
           exfalso. assert (nonpooled sl p) by (inversion Pp; auto).
           unfold nonpooled, pooled_at in H0. rewrite Ep in H0. discriminate.
Qed.

Lemma is_marked_repeat_false n i : is_marked (repeat false n) i = false.
Proof.
  unfold is_marked. revert i. induction n as [|n IH]; intros [|i]; simpl; auto.
Qed.

Lemma mark_inv_init (s : space) :
  mark_inv (slots s) (live_roots (guards s)) (init_stack s) (repeat false (length (slots s))).
Proof.
  constructor.
  - apply repeat_length.
  - intros i H. rewrite is_marked_repeat_false in H. discriminate.
  - intros i H. unfold init_stack in H. apply in_rev in H. apply filter_In in H as [Hi Hp].
    apply negb_true_iff in Hp. apply reach_root; auto.
  - intros i j H. rewrite is_marked_repeat_false in H. discriminate.
  - intros r Hr Np. right. unfold init_stack. apply -> in_rev. apply filter_In. split; auto.
    unfold nonpooled in Np. rewrite Np. reflexivity.
Qed.

Theorem mark_exact (s : space) (m : list bool) :
  mark s = Some m ->
  length m = length (slots s) /\ forall i, is_marked m i = true <-> Reach s i.
Proof.
  unfold mark, Reach. intros H. eapply mark_loop_correct; eauto. apply mark_inv_init.
Qed.
