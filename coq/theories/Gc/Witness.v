(* Concrete histories: non-vacuity examples and the refutation witnesses of
   the known findings (evaluated by the kernel's vm). *)
From Coq Require Import List Bool Arith NArith ZArith Lia.
From TsrunV Require Import Gc.Model Gc.Mark Gc.Wf Gc.Step Gc.Collect Gc.Frame.
Import ListNotations.

(* K1: two stale handles dropped after their slot was reused reset a
   guard-rooted object (confirmed on the real code: value 42 -> 0, live 1 -> 0) *)
Definition k1_prefix : list op :=
  [CreateGuard; SetThr 0; Alloc 0; Clone 0; Unguard 0 0; Collect; Alloc 0; SetVal 2 42].
Definition k1_drops : list op := [Drop 0; Drop 1].

Lemma stale_double_drop_refuted :
  let s := exec init k1_prefix in
  let s' := exec s k1_drops in
  In 0 (live_roots (guards s)) /\ pooled_at (slots s) 0 = false /\
  snd (step s (Read 2)) = OObj 42 [] /\
  live_roots (guards s') = live_roots (guards s) /\
  snd (step s' (Read 2)) = OObj 0 [] /\ pooled_at (slots s') 0 = true /\
  snd (step s' Stats) = OStats 1 1 /\
  op_class s (Drop 0) = [1] /\ rc0_events s' = 1.
Proof. vm_compute. repeat split; auto. Qed.

(* K2: reading through a handle that outlives the heap dereferences freed chunks *)
Lemma borrow_after_heap_drop_refuted :
  let s := exec init [CreateGuard; Alloc 0; DropHeap] in
  snd (step s (Read 0)) = OFault /\ op_class s (Read 0) = [2] /\
  snd (step s (Drop 0)) = OUnit /\ snd (step s (Clone 0)) = OHandle 1 0.
Proof. vm_compute. repeat split; auto. Qed.

(* non-vacuity: a cycle and a chain are collected exactly *)
Definition cycle_ops : list op :=
  [CreateGuard; SetThr 0; Alloc 0; Alloc 0; Alloc 0; Link 0 1; Link 1 2; Link 2 0;
   SetVal 1 7; Unguard 0 1; Unguard 0 2; Drop 1; Drop 2].

Example cycle_kept_then_freed :
  let s := exec init cycle_ops in
  let s1 := collect s in
  let s2 := collect (exec s1 [Unguard 0 0]) in
  wf s /\ fuel_err s1 = false /\
  snd (step s1 Stats) = OStats 3 0 /\ nth_error (map s_val (slots s1)) 1 = Some 7%Z /\
  snd (step s2 Stats) = OStats 3 3 /\ map s_refs (slots s2) = [[]; []; []].
Proof. split; [apply wf_reachable|]. vm_compute. repeat split; auto. Qed.

(* a 300-object chain crossing the 256-slot chunk boundary, rooted at its head only *)
Fixpoint chain_ops (n : nat) (k : nat) : list op :=
  match n with
  | O => []
  | S n' => [Alloc 0; Link k (S k); Unguard 0 (S k)] ++ (match k with O => [] | _ => [Drop k] end) ++ chain_ops n' (S k)
  end.
Definition chain_history : list op := [CreateGuard; SetThr 0; Alloc 0] ++ chain_ops 299 0.

Example chain_300_survives :
  let s := collect (exec init chain_history) in
  fuel_err s = false /\ snd (step s Stats) = OStats 300 0 /\
  snd (step (collect (exec s [Unlink 0 0])) Stats) = OStats 300 299.
Proof. vm_compute. repeat split; auto. Qed.

(* 17 guards created and dropped: the guard pool saturates at 16 *)
Example guard_pool_bounded :
  gpool (exec init (repeat CreateGuard 17 ++ map DropGuard (seq 0 17))) = 16.
Proof. vm_compute. reflexivity. Qed.
