(* Every operation of the public API preserves the structural invariant. *)
From Coq Require Import List Bool Arith NArith ZArith Lia.
From TsrunV Require Import Gc.Model Gc.Mark Gc.Wf.
Import ListNotations.

Lemma Forall_lt_weaken n m l : n <= m -> Forall (fun j => j < n) l -> Forall (fun j => j < m) l.
Proof. intros H F. eapply Forall_impl; [|exact F]. simpl. intros; lia. Qed.

Lemma wf_alloc_internal s : wf s ->
  let '(s', i) := alloc_internal s in
  wf s' /\ i < length (slots s') /\ length (slots s) <= length (slots s').
Proof.
  intros W. unfold alloc_internal.
  set (s1 := set_net s (net s + 1)%Z).
  assert (W1 : wf s1) by (eapply wf_same with (s := s); try reflexivity; auto).
  set (s2 := if ((0 <? thr s1)%Z && (thr s1 <=? net s1)%Z)%bool then collect s1 else s1).
  assert (W2 : wf s2) by (unfold s2; destruct (_ && _)%bool; auto using wf_collect).
  assert (L2 : length (slots s2) = length (slots s)).
  { unfold s2. destruct (_ && _)%bool; [rewrite length_slots_collect|]; reflexivity. }
  destruct (free s2) as [|i fr] eqn:Ef.
  - (* fresh slot *)
    split; [|split]; simpl; rewrite ?app_length; simpl; try lia.
    destruct W2 as [R G F N P H]. constructor; simpl; rewrite ?app_length; simpl.
    + apply Forall_app. split.
      * eapply Forall_impl; [|exact R]. intros x Hx. unfold refs_ok in *.
        eapply Forall_lt_weaken; [|exact Hx]. lia.
      * repeat constructor.
    + eapply Forall_impl; [|exact G]. intros g Hg. eapply Forall_lt_weaken; [|exact Hg]. lia.
    + constructor.
    + constructor.
    + intros j Lj. split; [intros []|]. intros Hp. exfalso.
      assert (j < length (slots s2) \/ j = length (slots s2)) as [Lt|Eq] by lia; [|subst j].
      * unfold pooled_at in Hp. rewrite nth_error_app1 in Hp by lia.
        fold (pooled_at (slots s2) j) in Hp. apply P in Hp; auto. rewrite Ef in Hp. destruct Hp.
      * unfold pooled_at in Hp. rewrite nth_error_app2 in Hp by lia.
        rewrite Nat.sub_diag in Hp. simpl in Hp. discriminate.
    + eapply Forall_impl; [|exact H]. simpl. intros; lia.
  - (* reuse from the free list *)
    assert (Li : i < length (slots s2)).
    { pose proof (wf_free_lt s2 W2) as F. rewrite Ef in F. inversion F; auto. }
    set (sl := reset_slot (slots s2) i (fun r => r)).
    assert (C : compat (length (slots s2)) (slots s2) sl) by apply compat_reset_slot.
    assert (Ls : length sl = length (slots s2)) by apply C.
    split; [|split]; simpl; rewrite ?length_upd; try lia.
    destruct W2 as [R G F N P H]. rewrite Ef in *.
    inversion F as [|? ? Fi Ffr]; inversion N as [|? ? Ni Nfr]; subst.
    constructor; simpl; rewrite ?length_upd, ?Ls; auto.
    + apply Forall_upd; [apply C; auto|]. intros x Hx. exact Hx.
    + intros j Lj. unfold pooled_at. destruct (Nat.eq_dec i j) as [->|Nij].
      * rewrite nth_error_upd_same. destruct (nth_error sl j) eqn:E; simpl.
        -- split; [intros Hin; contradiction|discriminate].
        -- exfalso. apply nth_error_None in E. lia.
      * rewrite nth_error_upd_other; auto. fold (pooled_at sl j).
        rewrite (c_pooled _ _ _ C). rewrite <- P; auto. simpl. intuition congruence.
Qed.

Lemma wf_swap_remove n l pos : Forall (fun j => j < n) l -> Forall (fun j => j < n) (swap_remove l pos).
Proof.
  intros F. unfold swap_remove. destruct (rev l) as [|lastx r] eqn:E; auto.
  assert (Hl : lastx < n).
  { rewrite Forall_forall in F. apply F. apply in_rev. rewrite E. left; auto. }
  assert (Hr : Forall (fun j => j < n) (removelast l)).
  { rewrite Forall_forall in *. intros x Hx. apply F.
    destruct l as [|a l']; [destruct Hx|].
    rewrite (app_removelast_last 0 (l := a :: l')) by discriminate. apply in_or_app; auto. }
  destruct (Nat.eqb pos (length (removelast l))); auto. apply Forall_upd; auto.
Qed.

Lemma In_firstn_mine {A} k (l : list A) x : In x (firstn k l) -> In x l.
Proof. revert l; induction k as [|k IH]; intros [|a l]; simpl; intuition. Qed.
Lemma In_skipn_mine {A} k (l : list A) x : In x (skipn k l) -> In x l.
Proof. revert l; induction k as [|k IH]; intros [|a l]; simpl; intuition. Qed.

Lemma Forall_firstn_skipn n k (l : list nat) :
  Forall (fun j => j < n) l -> Forall (fun j => j < n) (firstn k l ++ skipn (S k) l).
Proof.
  intros F. rewrite Forall_forall in *. intros x Hx. apply in_app_or in Hx as [Hx|Hx].
  - apply F. eapply In_firstn_mine; eauto.
  - apply F. eapply In_skipn_mine; eauto.
Qed.

Theorem wf_step s o : wf s -> wf (fst (step s o)).
Proof.
  intros W. destruct o; simpl.
  - (* CreateGuard *)
    destruct W as [R G F N P H]. constructor; simpl; auto. apply Forall_app; split; auto.
    repeat constructor.
  - (* DropGuard *)
    destruct (live_guard s g); simpl; auto.
    destruct W as [R G F N P H]. constructor; simpl; auto. apply Forall_upd; auto.
    intros; simpl; constructor.
  - (* Alloc *)
    destruct (live_guard s g); simpl; auto. destruct (negb (alive s)); simpl; auto.
    pose proof (wf_alloc_internal s W) as A. destruct (alloc_internal s) as [s1 i].
    destruct A as [W1 [Li Ln]]. simpl.
    set (s2 := set_slots s1 _).
    assert (W2 : wf s2).
    { apply wf_compat; auto. apply compat_upd; intros x; simpl; auto. }
    assert (L2 : length (slots s2) = length (slots s1)) by (simpl; apply length_upd).
    assert (W3 : wf (push_root s2 g i)) by (apply wf_push_root; auto; lia).
    apply wf_set_handles; auto. apply Forall_app; split; [apply (wf_handles _ W3)|].
    repeat constructor. simpl. rewrite length_upd. lia.
  - (* GuardClone *)
    destruct (live_guard s g); simpl; auto.
    destruct (live_handle s h) as [hd|] eqn:Eh; simpl; auto.
    pose proof (live_handle_lt s h hd W Eh) as Li.
    apply wf_drop_top.
    destruct (alive (inc_rc s (h_slot hd)) && _)%bool; [apply wf_push_root|]; auto using wf_inc_rc.
    rewrite length_slots_inc_rc; auto.
  - (* GuardMove *)
    destruct (live_guard s g); simpl; auto.
    destruct (live_handle s h) as [hd|] eqn:Eh; simpl; auto.
    pose proof (live_handle_lt s h hd W Eh) as Li.
    apply wf_kill_handle, wf_drop_top.
    destruct (alive s && _)%bool; [apply wf_push_root|]; auto.
  - (* Unguard *)
    destruct (live_guard s g) as [gd|] eqn:Eg; simpl; auto.
    destruct (live_handle s h) as [hd|]; simpl; auto.
    destruct (position (g_roots gd) (h_slot hd)); simpl; auto.
    apply wf_set_guards; auto. apply Forall_upd; [apply (wf_roots s W)|].
    intros x Hx. simpl. apply wf_swap_remove; auto.
  - (* Clear *)
    destruct (live_guard s g); simpl; auto.
    apply wf_set_guards; auto. apply Forall_upd; [apply (wf_roots s W)|]. intros x Hx. simpl. constructor.
  - (* Clone *)
    destruct (live_handle s h) as [hd|] eqn:Eh; simpl; auto.
    pose proof (live_handle_lt s h hd W Eh) as Li.
    apply wf_set_handles; [|apply wf_inc_rc; auto].
    rewrite length_slots_inc_rc. apply Forall_app; split.
    + pose proof (wf_handles _ (wf_inc_rc s (h_slot hd) W)) as X. rewrite length_slots_inc_rc in X. exact X.
    + repeat constructor. simpl. auto.
  - (* Drop *)
    destruct (live_handle s h) as [hd|]; simpl; auto. apply wf_kill_handle, wf_drop_top; auto.
  - (* SetVal *)
    destruct (live_handle s h) as [hd|]; simpl; auto. destruct (negb (alive s)); simpl; auto.
    apply wf_compat; auto. apply compat_upd; intros x; simpl; auto.
  - (* Link *)
    destruct (live_handle s h1) as [a|] eqn:Ea; simpl; auto.
    destruct (live_handle s h2) as [b|] eqn:Eb; simpl; auto.
    destruct (negb (alive s)); simpl; auto.
    pose proof (live_handle_lt s h2 b W Eb) as Lb.
    apply wf_compat; [apply wf_inc_rc; auto|]. rewrite length_slots_inc_rc.
    apply compat_upd; intros x; simpl; auto. unfold refs_ok. simpl. intros Hx.
    apply Forall_app; split; auto.
  - (* Unlink *)
    destruct (live_handle s h) as [hd|]; simpl; auto. destruct (negb (alive s)); simpl; auto.
    destruct (nth_error (slots s) (h_slot hd)) as [x|]; simpl; auto.
    destruct (nth_error (s_refs x) i); simpl; auto.
    apply wf_drop_top. apply wf_compat; auto. apply compat_upd; intros y; simpl; auto.
    unfold refs_ok. simpl. apply Forall_firstn_skipn.
  - (* ClearRefs *)
    destruct (live_handle s h) as [hd|]; simpl; auto. destruct (negb (alive s)); simpl; auto.
    destruct (nth_error (slots s) (h_slot hd)) as [x|]; simpl; auto.
    apply wf_fold_drop_top. apply wf_compat; auto. apply compat_upd; intros y; simpl; auto.
    intros _. constructor.
  - (* Read *)
    destruct (live_handle s h) as [hd|]; simpl; auto. destruct (negb (alive s)); simpl; auto.
    destruct (nth_error (slots s) (h_slot hd)); simpl; auto.
  - (* Collect *)
    destruct (alive s); simpl; auto using wf_collect.
  - (* SetThr *)
    destruct (alive s); simpl; auto. eapply wf_same with (s := s); try reflexivity; auto.
  - (* Stats *)
    destruct (alive s); simpl; auto.
  - (* DropHeap *)
    destruct (alive s); simpl; auto. eapply wf_same with (s := s); try reflexivity; auto.
Qed.

Theorem wf_exec os : forall s, wf s -> wf (exec s os).
Proof.
  induction os as [|o os IH]; intros s W; simpl; auto. apply IH. apply wf_step; auto.
Qed.

Theorem wf_reachable os : wf (exec init os).
Proof. apply wf_exec, wf_init. Qed.
