(* C02 -- garbage collection is invisible: no reachable object is ever reclaimed.
   Only statements; each is closed by a lemma proved elsewhere. *)
From Coq Require Import List Bool Arith NArith ZArith.
From TsrunV Require Import Gc.Model Gc.Mark Gc.Wf Gc.Step Gc.Collect Gc.Invisible Gc.Witness.
Import ListNotations.

(* "no object that the program or a host-held value can still reach is ever
   reset or reused while it is reachable": for every heap reachable by any
   history of operations, a collection leaves every object reachable from a
   live guard in place, un-pooled, with its value and references. *)
Theorem c02_reachable_objects_survive : forall s, wf s -> fuel_err (collect s) = false -> fuel_err s = false ->
  forall i x, Reach s i -> nth_error (slots s) i = Some x ->
  exists y, nth_error (slots (collect s)) i = Some y /\
            s_val y = s_val x /\ s_refs y = s_refs x /\ s_pooled y = false.
Proof. exact reachable_untouched. Qed.
Print Assumptions c02_reachable_objects_survive.

(* what the host reads through a handle to a reachable object does not depend on whether a collection ran *)
Theorem c02_reads_unchanged_by_collection : forall s, wf s -> fuel_err (collect s) = false -> fuel_err s = false ->
  forall h hd, live_handle s h = Some hd -> Reach s (h_slot hd) ->
  snd (step (collect s) (Read h)) = snd (step s (Read h)).
Proof. exact read_through_collect. Qed.
Print Assumptions c02_reads_unchanged_by_collection.

(* the reachable set itself is unchanged, so a second, third ... collection changes nothing more *)
Theorem c02_reachability_unchanged : forall s, wf s -> fuel_err (collect s) = false -> fuel_err s = false ->
  forall i, Reach (collect s) i <-> Reach s i.
Proof. exact reach_collect. Qed.
Print Assumptions c02_reachability_unchanged.

(* the only way a value changes under the mutator's feet is the one the model
   names: an object NOT reachable from any guard (known finding K1 of C13: a
   handle kept across a collection without a guard) *)
Theorem c02_unguarded_object_is_reset_refuted :
  let s := exec init k1_prefix in
  let s' := exec s k1_drops in
  snd (step s (Read 2)) = OObj 42 [] /\ snd (step s' (Read 2)) = OObj 0 [] /\ pooled_at (slots s') 0 = true.
Proof.
  pose proof stale_double_drop_refuted as H. cbv zeta in H.
  destruct H as (_ & _ & A & _ & B & C & _). repeat split; assumption.
Qed.
Print Assumptions c02_unguarded_object_is_reset_refuted.
