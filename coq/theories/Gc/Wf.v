(* Structural invariant of the collector state, preserved by every public
   operation on every history: every index the Rust code dereferences
   (object references, guard roots, free-list entries, host handles) names an
   existing slot, and the free list is exactly the set of pooled slots. *)
From Coq Require Import List Bool Arith NArith ZArith Lia.
From TsrunV Require Import Gc.Model Gc.Mark.
Import ListNotations.

Definition refs_ok (n : nat) (x : slot) : Prop := Forall (fun j => j < n) (s_refs x).

Record wf (s : space) : Prop := {
  wf_refs : Forall (refs_ok (length (slots s))) (slots s);
  wf_roots : Forall (fun g => Forall (fun j => j < length (slots s)) (g_roots g)) (guards s);
  wf_free_lt : Forall (fun j => j < length (slots s)) (free s);
  wf_free_nodup : NoDup (free s);
  wf_free_pooled : forall i, i < length (slots s) -> (In i (free s) <-> pooled_at (slots s) i = true);
  wf_handles : Forall (fun h => h_slot h < length (slots s)) (handles s)
}.

Lemma wf_init : wf init.
Proof. constructor; simpl; try constructor; intros; lia. Qed.

(* ---- slot-list transformers that keep lengths, pooled flags and ref bounds ---- *)
Record compat (n : nat) (sl sl' : list slot) : Prop := {
  c_len : length sl' = length sl;
  c_refs : Forall (refs_ok n) sl -> Forall (refs_ok n) sl';
  c_pooled : forall i, pooled_at sl' i = pooled_at sl i
}.

Lemma compat_refl n sl : compat n sl sl.
Proof. constructor; auto. Qed.

Lemma compat_trans n a b c : compat n a b -> compat n b c -> compat n a c.
Proof.
  intros [L1 R1 P1] [L2 R2 P2].
  constructor; [congruence|auto|intros i; rewrite P2; apply P1].
Qed.

Lemma pooled_at_upd sl i f j :
  (forall x, s_pooled (f x) = s_pooled x) -> pooled_at (upd sl i f) j = pooled_at sl j.
Proof.
  intros H. unfold pooled_at. destruct (Nat.eq_dec i j) as [->|N].
  - rewrite nth_error_upd_same. destruct (nth_error sl j); simpl; auto.
  - rewrite nth_error_upd_other; auto.
Qed.

Lemma compat_upd n sl i f :
  (forall x, s_pooled (f x) = s_pooled x) ->
  (forall x, refs_ok n x -> refs_ok n (f x)) ->
  compat n sl (upd sl i f).
Proof.
  intros Hp Hr. constructor.
  - apply length_upd.
  - intros H. apply Forall_upd; auto.
  - intros j. apply pooled_at_upd; auto.
Qed.

Lemma dec_rc_pooled x : s_pooled (dec_rc x) = s_pooled x.
Proof. unfold dec_rc. destruct (s_pooled x) eqn:E; simpl; auto. Qed.
Lemma dec_rc_refs x : s_refs (dec_rc x) = s_refs x.
Proof. unfold dec_rc. destruct (s_pooled x); simpl; auto. Qed.
Lemma dec_rc_val x : s_val (dec_rc x) = s_val x.
Proof. unfold dec_rc. destruct (s_pooled x); simpl; auto. Qed.

Lemma compat_drop_nested n sl j : compat n sl (drop_nested sl j).
Proof.
  apply compat_upd; intros x; [apply dec_rc_pooled|]. unfold refs_ok. rewrite dec_rc_refs. auto.
Qed.

Lemma compat_fold_drop_nested n l : forall sl, compat n sl (fold_left drop_nested l sl).
Proof.
  induction l as [|j l IH]; intros sl; simpl; [apply compat_refl|].
  eapply compat_trans; [apply compat_drop_nested|apply IH].
Qed.

Lemma compat_reset_slot n sl i f : compat n sl (reset_slot sl i f).
Proof.
  unfold reset_slot. destruct (nth_error sl i) as [x|]; [|apply compat_refl].
  eapply compat_trans; [apply compat_fold_drop_nested|].
  apply compat_upd; intros y; simpl; auto. intros _. constructor.
Qed.

Lemma compat_fold_reset n v f : forall sl, compat n sl (fold_left (fun sl i => reset_slot sl i f) v sl).
Proof.
  induction v as [|i v IH]; intros sl; simpl; [apply compat_refl|].
  eapply compat_trans; [apply compat_reset_slot|apply IH].
Qed.

Lemma wf_compat s sl' : wf s -> compat (length (slots s)) (slots s) sl' -> wf (set_slots s sl').
Proof.
  intros [R G F N P H] [L Rf Pp]. constructor; simpl; rewrite ?L; auto.
  intros i Hi. rewrite Pp. apply P; auto.
Qed.

(* ghost / scalar field updates do not matter *)
Lemma wf_same s s' :
  slots s' = slots s -> guards s' = guards s -> free s' = free s -> handles s' = handles s ->
  wf s -> wf s'.
Proof. intros A B C D [R G F N P H]. constructor; rewrite ?A, ?B, ?C, ?D; auto. Qed.

(* ---- pooling and un-pooling ---- *)
Lemma wf_pool_slot s i : wf s -> wf (pool_slot s i).
Proof.
  intros W. unfold pool_slot. destruct (pooled_at (slots s) i) eqn:Ep; auto.
  assert (Li : i < length (slots s)) by (apply nonpooled_lt; exact Ep).
  destruct W as [R G F N P H].
  constructor; simpl; rewrite ?length_upd; auto.
  - apply Forall_upd; auto.
  - constructor; auto. intros Hin. apply P in Hin; auto. congruence.
  - intros j Lj. destruct (Nat.eq_dec i j) as [->|Nij].
    + split; auto. intros _. unfold pooled_at. rewrite nth_error_upd_same.
      destruct (nth_error (slots s) j) eqn:E; simpl; auto.
    + unfold pooled_at. rewrite nth_error_upd_other; auto. fold (pooled_at (slots s) j).
      rewrite <- P; auto. simpl. intuition congruence.
Qed.

Lemma wf_fold_pool v : forall s, wf s -> wf (fold_left pool_slot v s).
Proof. induction v as [|i v IH]; intros s W; simpl; auto. apply IH, wf_pool_slot; auto. Qed.

Lemma length_slots_pool s i : length (slots (pool_slot s i)) = length (slots s).
Proof. unfold pool_slot. destruct (pooled_at (slots s) i); simpl; auto. apply length_upd. Qed.

(* ---- drop / clone ---- *)
Lemma wf_drop_top s i : wf s -> wf (drop_top s i).
Proof.
  intros W. unfold drop_top. destruct (negb (alive s)); auto.
  destruct (nth_error (slots s) i) as [x|] eqn:E; auto.
  destruct (s_pooled x); auto.
  assert (C1 : compat (length (slots s)) (slots s)
                 (upd (slots s) i (fun y => mkSlot (s_val y) (s_refs y) (N.pred (s_rc x)) (s_pooled y)))).
  { apply compat_upd; intros y; simpl; auto. }
  destruct (N.eqb (N.pred (s_rc x)) 0).
  - eapply wf_same with (s := pool_slot _ i); try reflexivity.
    apply wf_pool_slot. apply wf_compat; auto.
    eapply compat_trans; [exact C1|]. apply compat_reset_slot.
  - apply wf_compat; auto.
Qed.

Lemma length_slots_drop_top s i : length (slots (drop_top s i)) = length (slots s).
Proof.
  unfold drop_top. destruct (negb (alive s)); auto.
  destruct (nth_error (slots s) i) as [x|]; auto. destruct (s_pooled x); auto.
  destruct (N.eqb _ 0); simpl.
  - rewrite length_slots_pool. simpl.
    destruct (compat_reset_slot 0 (upd (slots s) i (fun y => mkSlot (s_val y) (s_refs y) (N.pred (s_rc x)) (s_pooled y))) i (fun r => r)) as [L _ _].
    rewrite L. apply length_upd.
  - apply length_upd.
Qed.

Lemma wf_fold_drop_top l : forall s, wf s -> wf (fold_left drop_top l s).
Proof. induction l as [|i l IH]; intros s W; simpl; auto. apply IH, wf_drop_top; auto. Qed.

Lemma wf_inc_rc s i : wf s -> wf (inc_rc s i).
Proof.
  intros W. unfold inc_rc. destruct (negb (alive s)); auto.
  apply wf_compat; auto. apply compat_upd; intros x; destruct (s_pooled x) eqn:E; simpl; auto.
Qed.

Lemma length_slots_inc_rc s i : length (slots (inc_rc s i)) = length (slots s).
Proof. unfold inc_rc. destruct (negb (alive s)); simpl; auto. apply length_upd. Qed.

(* ---- guards and handles ---- *)
Lemma wf_set_guards s gs :
  Forall (fun g => Forall (fun j => j < length (slots s)) (g_roots g)) gs -> wf s -> wf (set_guards s gs).
Proof. intros Hg [R G F N P H]. constructor; simpl; auto. Qed.

Lemma wf_set_handles s hs :
  Forall (fun h => h_slot h < length (slots s)) hs -> wf s -> wf (set_handles s hs).
Proof. intros Hh [R G F N P H]. constructor; simpl; auto. Qed.

Lemma wf_push_root s g i : i < length (slots s) -> wf s -> wf (push_root s g i).
Proof.
  intros Li W. unfold push_root. apply wf_set_guards; auto.
  apply Forall_upd; [apply (wf_roots s W)|]. intros x Hx. simpl.
  apply Forall_app. split; auto.
Qed.

Lemma wf_kill_handle s h : wf s -> wf (kill_handle s h).
Proof.
  intros W. unfold kill_handle. apply wf_set_handles; auto.
  apply Forall_upd; [apply (wf_handles s W)|]. intros x Hx; auto.
Qed.

Lemma live_handle_lt s h hd : wf s -> live_handle s h = Some hd -> h_slot hd < length (slots s).
Proof.
  intros W. unfold live_handle. destruct (nth_error (handles s) h) as [x|] eqn:E; [|discriminate].
  destruct (h_live x); [|discriminate]. intros X; inversion X; subst.
  pose proof (wf_handles s W) as Hh. rewrite Forall_forall in Hh. apply Hh. eapply nth_error_In; eauto.
Qed.

Lemma live_guard_roots s g gd : wf s -> live_guard s g = Some gd ->
  Forall (fun j => j < length (slots s)) (g_roots gd).
Proof.
  intros W. unfold live_guard. destruct (nth_error (guards s) g) as [x|] eqn:E; [|discriminate].
  destruct (g_live x); [|discriminate]. intros X; inversion X; subst.
  pose proof (wf_roots s W) as Hg. rewrite Forall_forall in Hg. apply Hg. eapply nth_error_In; eauto.
Qed.

(* ---- collect ---- *)
Lemma length_fold_pool v : forall s, length (slots (fold_left pool_slot v s)) = length (slots s).
Proof. induction v as [|i v IH]; intros s; simpl; auto. rewrite IH. apply length_slots_pool. Qed.

Lemma wf_sweep s m : wf s -> wf (sweep s m).
Proof.
  intros W. unfold sweep. apply wf_fold_pool. apply wf_compat; auto. apply compat_fold_reset.
Qed.

Lemma length_slots_sweep s m : length (slots (sweep s m)) = length (slots s).
Proof.
  unfold sweep. rewrite length_fold_pool. simpl.
  destruct (compat_fold_reset 0 (victims (slots s) m) (fun _ => 0%N) (slots s)) as [L _ _]. exact L.
Qed.

Lemma wf_collect s : wf s -> wf (collect s).
Proof.
  intros W. unfold collect. destruct (mark s) as [m|].
  - eapply wf_same with (s := sweep s m); try reflexivity. apply wf_sweep; auto.
  - eapply wf_same with (s := s); try reflexivity; auto.
Qed.

Lemma length_slots_collect s : length (slots (collect s)) = length (slots s).
Proof.
  unfold collect. destruct (mark s) as [m|]; simpl; auto. apply length_slots_sweep.
Qed.
