(* C02: a collection is invisible to everything the guards can still reach. *)
From Coq Require Import List Bool Arith NArith ZArith Lia.
From TsrunV Require Import Gc.Model Gc.Mark Gc.Wf Gc.Step Gc.Collect.
Import ListNotations.

Lemma handles_fold_pool v : forall s, handles (fold_left pool_slot v s) = handles s.
Proof.
  induction v as [|i v IH]; intros s; simpl; auto. rewrite IH. unfold pool_slot.
  destruct (pooled_at (slots s) i); reflexivity.
Qed.
Lemma alive_fold_pool v : forall s, alive (fold_left pool_slot v s) = alive s.
Proof.
  induction v as [|i v IH]; intros s; simpl; auto. rewrite IH. unfold pool_slot.
  destruct (pooled_at (slots s) i); reflexivity.
Qed.

Lemma handles_collect s : handles (collect s) = handles s.
Proof.
  unfold collect. destruct (mark s); [|reflexivity].
  unfold set_net, sweep. cbn. now rewrite handles_fold_pool.
Qed.
Lemma alive_collect s : alive (collect s) = alive s.
Proof.
  unfold collect. destruct (mark s); [|reflexivity].
  unfold set_net, sweep. cbn. now rewrite alive_fold_pool.
Qed.
Lemma guards_collect s : guards (collect s) = guards s.
Proof.
  unfold collect. destruct (mark s); [|reflexivity].
  unfold set_net. cbn. apply guards_sweep.
Qed.

(* no object that a live guard can still reach is reset, pooled or altered by a collection *)
Lemma reachable_untouched s : wf s -> fuel_err (collect s) = false -> fuel_err s = false ->
  forall i x, Reach s i -> nth_error (slots s) i = Some x ->
  exists y, nth_error (slots (collect s)) i = Some y /\
            s_val y = s_val x /\ s_refs y = s_refs x /\ s_pooled y = false.
Proof.
  intros W F1 F0 i x R E.
  destruct (collect_exact s W F1 F0) as (_ & Hlen & _ & Hpool & Hkeep & _).
  destruct (Hkeep i x R E) as [y [Ey (Dv & Dr & Dp)]].
  exists y. repeat split; auto.
  assert (Hi : i < length (slots s)) by (apply nth_error_Some; congruence).
  apply (proj2 (Hpool i Hi)) in R. unfold pooled_at in R. now rewrite Ey in R.
Qed.

(* what a host handle to a reachable object reads is the same before and after a collection *)
Lemma read_through_collect s : wf s -> fuel_err (collect s) = false -> fuel_err s = false ->
  forall h hd, live_handle s h = Some hd -> Reach s (h_slot hd) ->
  snd (step (collect s) (Read h)) = snd (step s (Read h)).
Proof.
  intros W F1 F0 h hd Hh R. cbn [step].
  unfold live_handle in *. rewrite handles_collect, alive_collect.
  destruct (nth_error (handles s) h) as [hh|]; [|discriminate].
  destruct (h_live hh); [|discriminate]. injection Hh as ->.
  destruct (alive s); cbn; [|reflexivity].
  destruct (nth_error (slots s) (h_slot hd)) as [x|] eqn:E.
  - destruct (reachable_untouched s W F1 F0 _ x R E) as [y [Ey (Dv & Dr & _)]].
    rewrite Ey. cbn. now rewrite Dv, Dr.
  - exfalso. assert (P : nonpooled (slots s) (h_slot hd)) by (inversion R; auto).
    apply nonpooled_lt in P. apply nth_error_None in E. lia.
Qed.

(* any number of extra collections in a row changes nothing more than one *)
Lemma reach_collect s : wf s -> fuel_err (collect s) = false -> fuel_err s = false ->
  forall i, Reach (collect s) i <-> Reach s i.
Proof. intros W F1 F0 i. destruct (collect_exact s W F1 F0) as (_ & _ & H & _). apply H. Qed.
