(* Regenerated facts agree with the pinned ones: decidable equality on finite data, by reflexivity. *)
From Coq Require Import List String.
From TsrunV Require Generated.FactsC19 Expected.FactsC19.

Lemma prologue_eval_agree : Generated.FactsC19.prologue_eval = Expected.FactsC19.prologue_eval.
Proof. reflexivity. Qed.

Lemma prologue_prepare_agree : Generated.FactsC19.prologue_prepare = Expected.FactsC19.prologue_prepare.
Proof. reflexivity. Qed.

Lemma prologue_resume_agree : Generated.FactsC19.prologue_resume = Expected.FactsC19.prologue_resume.
Proof. reflexivity. Qed.

Lemma capi_entry_calls_agree : Generated.FactsC19.capi_entry_calls = Expected.FactsC19.capi_entry_calls.
Proof. reflexivity. Qed.
