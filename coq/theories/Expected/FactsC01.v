(* PINNED copy of the facts the proofs were written against (tools/translate.py pin) from /repo -- do not edit *)
From Coq Require Import List String.
Import ListNotations.
Local Open Scope string_scope.

Definition binop_table : list string := ["PipePipe BitOr 4"; "AmpAmp BitAnd 5"; "QuestionQuestion BitOr 4"; "Pipe BitOr 6"; "Caret BitXor 7"; "Amp BitAnd 8"; "EqEq Eq 9"; "BangEq NotEq 9"; "EqEqEq StrictEq 9"; "BangEqEq StrictNotEq 9"; "Lt Lt 10"; "LtEq LtEq 10"; "Gt Gt 10"; "GtEq GtEq 10"; "In In 10"; "Instanceof Instanceof 10"; "LtLt LShift 11"; "GtGt RShift 11"; "GtGtGt URShift 11"; "Plus Add 12"; "Minus Sub 12"; "Star Mul 13"; "Slash Div 13"; "Percent Mod 13"; "StarStar Exp 14"].
