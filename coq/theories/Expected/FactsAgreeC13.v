(* Regenerated facts agree with the pinned ones: decidable equality on finite data, by reflexivity. *)
From Coq Require Import List String.
From TsrunV Require Generated.FactsC13 Expected.FactsC13.

Lemma constants_agree : Generated.FactsC13.constants = Expected.FactsC13.constants.
Proof. reflexivity. Qed.
