(* Regenerated facts agree with the pinned ones: decidable equality on finite data, by reflexivity. *)
From Coq Require Import List String.
From TsrunV Require Generated.FactsC17 Expected.FactsC17.

Lemma ffi_exports_agree : Generated.FactsC17.ffi_exports = Expected.FactsC17.ffi_exports.
Proof. reflexivity. Qed.

Lemma ffi_unchecked_pointer_params_agree : Generated.FactsC17.ffi_unchecked_pointer_params = Expected.FactsC17.ffi_unchecked_pointer_params.
Proof. reflexivity. Qed.

Lemma ffi_pointer_param_count_agree : Generated.FactsC17.ffi_pointer_param_count = Expected.FactsC17.ffi_pointer_param_count.
Proof. reflexivity. Qed.
