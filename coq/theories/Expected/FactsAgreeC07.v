(* Regenerated facts agree with the pinned ones: decidable equality on finite data, by reflexivity. *)
From Coq Require Import List String.
From TsrunV Require Generated.FactsC07 Expected.FactsC07.

Lemma fields_BytecodeVM_agree : Generated.FactsC07.fields_BytecodeVM = Expected.FactsC07.fields_BytecodeVM.
Proof. reflexivity. Qed.

Lemma fields_SavedVmState_agree : Generated.FactsC07.fields_SavedVmState = Expected.FactsC07.fields_SavedVmState.
Proof. reflexivity. Qed.

Lemma fields_TrampolineFrame_agree : Generated.FactsC07.fields_TrampolineFrame = Expected.FactsC07.fields_TrampolineFrame.
Proof. reflexivity. Qed.

Lemma fields_SavedTrampolineFrame_agree : Generated.FactsC07.fields_SavedTrampolineFrame = Expected.FactsC07.fields_SavedTrampolineFrame.
Proof. reflexivity. Qed.

Lemma assigns_save_state_agree : Generated.FactsC07.assigns_save_state = Expected.FactsC07.assigns_save_state.
Proof. reflexivity. Qed.

Lemma assigns_from_saved_state_agree : Generated.FactsC07.assigns_from_saved_state = Expected.FactsC07.assigns_from_saved_state.
Proof. reflexivity. Qed.

Lemma flow_save_state_SavedVmState_agree : Generated.FactsC07.flow_save_state_SavedVmState = Expected.FactsC07.flow_save_state_SavedVmState.
Proof. reflexivity. Qed.

Lemma flow_save_state_SavedTrampolineFrame_agree : Generated.FactsC07.flow_save_state_SavedTrampolineFrame = Expected.FactsC07.flow_save_state_SavedTrampolineFrame.
Proof. reflexivity. Qed.

Lemma flow_from_saved_state_Self_agree : Generated.FactsC07.flow_from_saved_state_Self = Expected.FactsC07.flow_from_saved_state_Self.
Proof. reflexivity. Qed.

Lemma flow_from_saved_state_TrampolineFrame_agree : Generated.FactsC07.flow_from_saved_state_TrampolineFrame = Expected.FactsC07.flow_from_saved_state_TrampolineFrame.
Proof. reflexivity. Qed.

Lemma flow_generator_store_agree : Generated.FactsC07.flow_generator_store = Expected.FactsC07.flow_generator_store.
Proof. reflexivity. Qed.

Lemma flow_generator_resume_agree : Generated.FactsC07.flow_generator_resume = Expected.FactsC07.flow_generator_resume.
Proof. reflexivity. Qed.
