(* Regenerated facts agree with the pinned ones: decidable equality on finite data, by reflexivity. *)
From Coq Require Import List String.
From TsrunV Require Generated.FactsC01 Expected.FactsC01.

Lemma binop_table_agree : Generated.FactsC01.binop_table = Expected.FactsC01.binop_table.
Proof. reflexivity. Qed.
