(* PINNED copy of the facts the proofs were written against (tools/translate.py pin) from /repo -- do not edit *)
From Coq Require Import List String.
Import ListNotations.
Local Open Scope string_scope.

Definition fields_BytecodeVM : list string := ["ip"; "chunk"; "registers"; "register_guard"; "call_stack"; "try_stack"; "this_value"; "exception_value"; "saved_env_stack"; "arguments"; "new_target"; "current_constructor"; "pending_completion"; "trampoline_stack"; "register_pool"; "arguments_pool"].
Definition fields_SavedVmState : list string := ["frames"; "ip"; "chunk"; "registers"; "try_stack"; "guard"; "arguments"; "new_target"; "trampoline_stack"].
Definition fields_TrampolineFrame : list string := ["ip"; "chunk"; "registers"; "this_value"; "vm_call_stack"; "try_stack"; "exception_value"; "saved_env_stack"; "arguments"; "new_target"; "current_constructor"; "pending_completion"; "return_register"; "saved_interp_env"; "register_guard"; "construct_new_obj"; "is_async"].
Definition fields_SavedTrampolineFrame : list string := ["ip"; "chunk"; "registers"; "this_value"; "vm_call_stack"; "try_stack"; "saved_env_stack"; "arguments"; "new_target"; "current_constructor"; "return_register"; "saved_interp_env"; "construct_new_obj"; "is_async"].
Definition assigns_save_state : list string := ["arguments"; "chunk"; "construct_new_obj"; "current_constructor"; "frames"; "guard"; "ip"; "is_async"; "new_target"; "registers"; "return_register"; "saved_env_stack"; "saved_interp_env"; "this_value"; "trampoline_stack"; "try_stack"; "value"; "vm_call_stack"].
Definition assigns_from_saved_state : list string := ["arguments"; "arguments_pool"; "call_stack"; "chunk"; "construct_new_obj"; "current_constructor"; "exception_value"; "ip"; "is_async"; "new_target"; "pending_completion"; "register_guard"; "register_pool"; "registers"; "return_register"; "saved_env_stack"; "saved_interp_env"; "this_value"; "try_stack"; "vm_call_stack"].
