(* PINNED copy of the facts the proofs were written against (tools/translate.py pin) from /repo -- do not edit *)
From Coq Require Import List String.
Import ListNotations.
Local Open Scope string_scope.

Definition constants : list string := ["DEFAULT_GC_THRESHOLD=100"; "CHUNK_CAPACITY=256"; "GUARD_POOL_MAX=16"; "REGISTER_LIMIT=255"].
