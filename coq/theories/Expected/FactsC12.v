(* PINNED copy of the facts the proofs were written against (tools/translate.py pin) from /repo -- do not edit *)
From Coq Require Import List String.
Import ListNotations.
Local Open Scope string_scope.

Definition global_state_decls : list string := ["src/platform/std_impl.rs: Instant::now"; "src/platform/std_impl.rs: SystemTime"].
Definition hash_iteration_sites : list string := ["interpreter/mod.rs::check_resolved_promises iterates wait_graph.promise_waiters"; "interpreter/mod.rs::process_pending_modules iterates pending_module_sources"].
