(* Regenerated facts agree with the pinned ones: decidable equality on finite data, by reflexivity. *)
From Coq Require Import List String.
From TsrunV Require Generated.FactsC14 Expected.FactsC14.

Lemma env_guard_sites_agree : Generated.FactsC14.env_guard_sites = Expected.FactsC14.env_guard_sites.
Proof. reflexivity. Qed.
