(* PINNED copy of the facts the proofs were written against (tools/translate.py pin) from /repo -- do not edit *)
From Coq Require Import List String.
Import ListNotations.
Local Open Scope string_scope.

Definition prologue_eval : list string := ["new"; "collect_import_requests_internal"; "filter_missing_imports"; "dedupe_import_requests"; "create_module_environment"; "setup_import_bindings"; "compile_program_with_source"; "compile_program"].
Definition prologue_prepare : list string := ["new"; "collect_import_requests_internal"; "filter_missing_imports"; "dedupe_import_requests"; "create_module_environment"; "setup_import_bindings"; "compile_program_with_source"; "compile_program"].
Definition prologue_resume : list string := ["collect_import_requests_internal"; "filter_unprovided_imports"; "dedupe_import_requests"; "process_pending_modules"; "filter_missing_imports"; "filter_unprovided_imports"; "create_module_environment"; "setup_import_bindings"; "compile_program_with_source"; "compile_program"].
Definition capi_entry_calls : list string := ["tsrun_prepare: prepare"; "tsrun_run: step"; "tsrun_step: step"].
