(* PINNED copy of the facts the proofs were written against (tools/translate.py pin) from /repo -- do not edit *)
From Coq Require Import List String.
Import ListNotations.
Local Open Scope string_scope.

Definition type_syntax_uses : list string := ["compiler/compile_expr.rs::compile_class_expression_with_name: type_parameters: class.type_parameters.clone(),"; "compiler/compile_expr.rs::compile_expression: Expression::NonNull(nn) => {"; "compiler/compile_expr.rs::compile_expression: Expression::TypeAssertion(ta) => {"; "compiler/compile_stmt.rs::compile_class_expression_for_export: type_parameters: None,"; "compiler/compile_stmt.rs::compile_function_expression_for_export: return_type: None,"; "compiler/compile_stmt.rs::compile_function_expression_for_export: type_parameters: None,"; "compiler/compile_stmt.rs::compile_statement_impl: Statement::TypeAlias(_) | Statement::InterfaceDeclaration(_) => Ok(()),"; "compiler/hoist.rs::collect_hoisted_vars_stmt: | Statement::InterfaceDeclaration(_)"; "compiler/hoist.rs::collect_hoisted_vars_stmt: | Statement::TypeAlias(_)"].
