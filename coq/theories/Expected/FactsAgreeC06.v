(* Regenerated facts agree with the pinned ones: decidable equality on finite data, by reflexivity. *)
From Coq Require Import List String.
From TsrunV Require Generated.FactsC06 Expected.FactsC06.

Lemma reentry_sites_agree : Generated.FactsC06.reentry_sites = Expected.FactsC06.reentry_sites.
Proof. reflexivity. Qed.
