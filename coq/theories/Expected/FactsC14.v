(* PINNED copy of the facts the proofs were written against (tools/translate.py pin) from /repo -- do not edit *)
From Coq Require Import List String.
Import ListNotations.
Local Open Scope string_scope.

Definition env_guard_sites : list string := ["interpreter/bytecode_vm.rs::handle_error_with_trampoline_unwind push=0 pop=1"; "interpreter/bytecode_vm.rs::push_trampoline_frame_and_call_bytecode push=1 pop=0"; "interpreter/bytecode_vm.rs::push_trampoline_frame_and_call_bytecode_construct push=1 pop=0"; "interpreter/bytecode_vm.rs::restore_from_trampoline_frame push=0 pop=1"; "interpreter/mod.rs::call_bytecode_function_with_new_target push=1 pop=0"; "interpreter/mod.rs::resume_bytecode_generator_body push=1 pop=0"].
