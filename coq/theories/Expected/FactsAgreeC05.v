(* Regenerated facts agree with the pinned ones: decidable equality on finite data, by reflexivity. *)
From Coq Require Import List String.
From TsrunV Require Generated.FactsC05 Expected.FactsC05.

Lemma parser_guarded_agree : Generated.FactsC05.parser_guarded = Expected.FactsC05.parser_guarded.
Proof. reflexivity. Qed.

Lemma parser_unguarded_cycles_agree : Generated.FactsC05.parser_unguarded_cycles = Expected.FactsC05.parser_unguarded_cycles.
Proof. reflexivity. Qed.

Lemma parser_limits_agree : Generated.FactsC05.parser_limits = Expected.FactsC05.parser_limits.
Proof. reflexivity. Qed.

Lemma parser_wrapping_loops_agree : Generated.FactsC05.parser_wrapping_loops = Expected.FactsC05.parser_wrapping_loops.
Proof. reflexivity. Qed.

Lemma parser_wrapping_loops_without_link_agree : Generated.FactsC05.parser_wrapping_loops_without_link = Expected.FactsC05.parser_wrapping_loops_without_link.
Proof. reflexivity. Qed.
