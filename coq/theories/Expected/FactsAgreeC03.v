(* Regenerated facts agree with the pinned ones: decidable equality on finite data, by reflexivity. *)
From Coq Require Import List String.
From TsrunV Require Generated.FactsC03 Expected.FactsC03.

Lemma type_syntax_uses_agree : Generated.FactsC03.type_syntax_uses = Expected.FactsC03.type_syntax_uses.
Proof. reflexivity. Qed.
