(* Regenerated facts agree with the pinned ones: decidable equality on finite data, by reflexivity. *)
From Coq Require Import List String.
From TsrunV Require Generated.FactsC12 Expected.FactsC12.

Lemma global_state_decls_agree : Generated.FactsC12.global_state_decls = Expected.FactsC12.global_state_decls.
Proof. reflexivity. Qed.

Lemma hash_iteration_sites_agree : Generated.FactsC12.hash_iteration_sites = Expected.FactsC12.hash_iteration_sites.
Proof. reflexivity. Qed.
