(* C01, mechanism M6: the for-of loop over the iterator protocol, with a binding per iteration.

   The model of what compile_for_of emits around the loop body
   (src/compiler/compile_stmt.rs), the machine those instructions run on, and the
   ECMAScript meaning of the loop (ForIn/OfBodyEvaluation, 14.7.5.7): the body runs
   once per value, in order, each time with the loop variable bound in an
   environment created for that iteration; `break` leaves the loop and closes the
   iterator, `continue` goes on to the next value, the end of the iterator leaves
   the loop without closing it; the scopes and handlers in force before the loop are
   the ones in force after it. The body is a parameter: for each value it completes
   normally, breaks or continues. *)
From Coq Require Import List Arith Bool Lia.
Import ListNotations.

Section ForOf.
Variable V : Type.
Variable undef : V.

Inductive outcome := Normal | Brk | Cont.
Variable body : V -> outcome.

Inductive op :=
| ONext                  (* IteratorNext { dst: result, iterator } *)
| OIterDone (t : nat)    (* IteratorDone { result, target } *)
| OValue                 (* IteratorValue { dst: value, result } *)
| OPushScope             (* PushScope: the environment of this iteration *)
| ODeclare               (* DeclareVar { init: value }: the loop variable *)
| OPushIterTry           (* PushIterTry { iterator, catch_target } *)
| OBody (brk cont scopes : nat) (* the body statement; its break jumps to brk (after IteratorClose), its continue to
                                   cont, both leaving `scopes` environments (Break / Continue { scopes }) *)
| OBodyIn (brk cont scopes : nat) (* the body of a for-in: its break is a plain Break (the keys iterator has no return()) *)
| OPopIterTry            (* PopIterTry *)
| OPopScope              (* PopScope *)
| OJump (t : nat)        (* Jump { target } *)
| OClose                 (* IteratorClose (exception path) *)
| ORethrow.              (* Rethrow (exception path) *)

Inductive res := RNone | RVal (v : V) | RDone.

(* an environment: its identity and the loop variable's value if declared in it *)
Definition frame : Type := nat * option V.

Record st := mk { pc : nat; iter : list V; result : res; elem : V;
                  frames : list frame;    (* innermost first *)
                  fresh : nat;            (* identity of the next environment to be created *)
                  trys : nat;             (* handlers in force *)
                  log : list (nat * option V);  (* per execution of the body: the innermost environment and what the loop variable is in it *)
                  nexts : nat; closed : bool }.

Definition top_id (fs : list frame) : nat * option V := match fs with f :: _ => f | [] => (0, None) end.

Definition exec (loop_trys : nat) (o : op) (s : st) : st :=
  match s with mk p i r e fs nid t l n c =>
    match o with
    | ONext => match i with
               | [] => mk (S p) [] RDone e fs nid t l (S n) c
               | v :: i' => mk (S p) i' (RVal v) e fs nid t l (S n) c
               end
    | OIterDone tg => mk (match r with RDone => tg | _ => S p end) i r e fs nid t l n c
    | OValue => mk (S p) i r (match r with RVal v => v | _ => undef end) fs nid t l n c
    | OPushScope => mk (S p) i r e ((nid, None) :: fs) (S nid) t l n c
    | ODeclare => mk (S p) i r e (match fs with (k, _) :: fs' => (k, Some e) :: fs' | [] => [] end) nid t l n c
    | OPushIterTry => mk (S p) i r e fs nid (S t) l n c
    | OBody brk cont scopes =>
        let l' := l ++ [top_id fs] in
        (* Break / Continue { scopes, try_depth }: back to the loop's own environments and handlers *)
        let fs0 := skipn scopes fs in
        match body e with
        | Normal => mk (S p) i r e fs nid t l' n c
        | Brk => mk brk i r e fs0 nid loop_trys l' n true
        | Cont => mk cont i r e fs0 nid loop_trys l' n c
        end
    | OBodyIn brk cont scopes =>
        let l' := l ++ [top_id fs] in
        let fs0 := skipn scopes fs in
        match body e with
        | Normal => mk (S p) i r e fs nid t l' n c
        | Brk => mk brk i r e fs0 nid loop_trys l' n c
        | Cont => mk cont i r e fs0 nid loop_trys l' n c
        end
    | OPopIterTry => mk (S p) i r e fs nid (pred t) l n c
    | OPopScope => mk (S p) i r e (tl fs) nid t l n c
    | OJump tg => mk tg i r e fs nid t l n c
    | OClose => mk (S p) i r e fs nid t l n true
    | ORethrow => mk (S p) i r e fs nid t l n c
    end
  end.

Fixpoint run (lt : nat) (code : list op) (k : nat) (s : st) : option st :=
  match k with
  | 0 => Some s
  | S k' => match nth_error code (pc s) with
            | None => None
            | Some o => run lt code k' (exec lt o s)
            end
  end.

Fixpoint run_halt (lt : nat) (code : list op) (fuel : nat) (s : st) : option st :=
  match fuel with
  | 0 => None
  | S f => match nth_error code (pc s) with
           | None => Some s
           | Some o => run_halt lt code f (exec lt o s)
           end
  end.

(* ---- what the compiler emits, at instruction index p ---- *)
Definition cforof (p : nat) : list op :=
  [ONext; OIterDone (12 + p); OValue; OPushScope; ODeclare; OPushIterTry; OBody (12 + p) p 1;
   OPopIterTry; OPopScope; OJump p; OClose; ORethrow].

(* for-in over the keys iterator: the same loop without handler and without closing *)
Definition cforin (p : nat) : list op :=
  [ONext; OIterDone (8 + p); OValue; OPushScope; ODeclare; OBodyIn (8 + p) p 1; OPopScope; OJump p].

(* the compilation before the repair: the variable declared in the one scope around the loop *)
Definition cforof_old (p : nat) : list op :=
  [ONext; OIterDone (10 + p); OValue; ODeclare; OPushIterTry; OBody (10 + p) p 0;
   OPopIterTry; OJump p; OClose; ORethrow].

(* ---- what ECMAScript says ---- *)
(* bodies executed (environment identity, loop variable in it), next() calls, closed, next fresh identity *)
Fixpoint spec (it : list V) (nid : nat) : list (nat * option V) * nat * bool * nat :=
  match it with
  | [] => ([], 1, false, nid)
  | v :: r =>
      match body v with
      | Brk => ([(nid, Some v)], 1, true, S nid)
      | _ => let '(l, n, c, k) := spec r (S nid) in ((nid, Some v) :: l, S n, c, k)
      end
  end.

(* for-in: the same executions and next() calls; nothing is closed *)
Definition spec_in (it : list V) (nid : nat) : list (nat * option V) * nat * bool * nat :=
  let '(l, n, _, k) := spec it nid in (l, n, false, k).

(* the values the body sees: up to and including the first one it breaks on *)
Fixpoint upto_break (it : list V) : list V :=
  match it with
  | [] => []
  | v :: r => match body v with Brk => [v] | _ => v :: upto_break r end
  end.

End ForOf.
