(* C10 -- property theorems only (the compiled core of Lang/Core.v: when is a program refused?). *)
From Coq Require Import String ZArith Bool List Arith.
From TsrunV Require Import Lang.Ops Lang.Core Lang.CoreLimits.
Import ListNotations.

(* An expression of the core is refused exactly when it needs more registers
   than the frame has left: the need is a function of the expression alone
   (its shape, not its position, not what was compiled before it). *)
Theorem c10_core_refusal_is_exactly_register_need :
  forall (bop uop : Type) (e : expr bop uop) dst next pc, next <= max_reg ->
    (accepted (cexpr bop uop e dst next pc) <-> next + eneed bop uop e <= max_reg).
Proof. exact cexpr_accepts. Qed.
Print Assumptions c10_core_refusal_is_exactly_register_need.

(* Limits are per statement, never cumulative: a list of statements, however
   long, is accepted exactly when each of its statements is accepted on its own
   (statements hold no register across each other, positions do not matter). *)
Theorem c10_core_limits_are_per_statement :
  forall (bop uop : Type) (l : list (stmt bop uop)) next pc, next <= max_reg ->
    (accepted (cstmts bop uop l next pc) <-> Forall (fun s => accepted (cstmt bop uop s None next 0)) l).
Proof. exact statements_accepted_separately. Qed.
Print Assumptions c10_core_limits_are_per_statement.

(* non-vacuity: 254 nested unary operators fit after one register, 255 do not;
   two thousand copies of the statement that fits are accepted together *)
Fixpoint nest (n : nat) (e : expr binop unop) : expr binop unop :=
  match n with 0 => e | S k => EUn _ _ Not (nest k e) end.
Definition fits {A} (o : option (list A)) (n : nat) : bool := match o with Some c => Nat.eqb (length c) n | None => false end.
Theorem c10_core_limits_witness :
  eneed binop unop (nest 254 (EVar _ _ "a"%string)) = 254 /\
  fits (cstmt binop unop (SExpr _ _ (nest 253 (EVar _ _ "a"%string))) None 0 1) 254 = true /\
  cstmt binop unop (SExpr _ _ (nest 255 (EVar _ _ "a"%string))) None 0 1 = None /\
  fits (cstmts binop unop (repeat (SExpr _ _ (nest 253 (EVar _ _ "a"%string))) 500) 0 1) (500 * 254) = true.
Proof. repeat split; vm_compute; reflexivity. Qed.
Print Assumptions c10_core_limits_witness.
