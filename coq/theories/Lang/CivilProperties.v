(* C01 -- property theorems only (mechanism M5: the calendar arithmetic of Date). *)
From Coq Require Import ZArith List Bool.
From TsrunV Require Import Lang.Civil Lang.CivilProofs.
Local Open Scope Z_scope.

(* For every day number (any integer), days_to_ymd yields the year, month and day of month that
   ECMAScript's YearFromTime, MonthFromTime and DateFromTime define (DayFromYear, leap years and
   the month table), a day of month that exists in that month, and none of its unsigned
   intermediate values goes below zero. *)
Theorem c01_date_days_to_ymd_is_ecmascript : forall day : Z,
  let '(y, m, d) := days_to_ymd day in
  is_civil day y m d /\ 1 <= d <= days_in_month y m /\ days_to_ymd_unsigned_ok day = true.
Proof. exact days_to_ymd_is_civil. Qed.
Print Assumptions c01_date_days_to_ymd_is_ecmascript.

(* ... and ECMAScript's definition determines that date uniquely. *)
Theorem c01_date_civil_date_is_unique : forall day y m d y' m' d' : Z,
  is_civil day y m d -> is_civil day y' m' d' -> y = y' /\ m = m' /\ d = d'.
Proof. exact civil_unique. Qed.
Print Assumptions c01_date_civil_date_is_unique.

(* For every year and every month 1..12, ymd_to_days is the day number MakeDay specifies. *)
Theorem c01_date_ymd_to_days_is_MakeDay : forall y m d : Z, 1 <= m <= 12 ->
  ymd_to_days y m d = DayFromYear y + MonthStart m (InLeapYear y) + d - 1.
Proof. exact ymd_to_days_is_MakeDay. Qed.
Print Assumptions c01_date_ymd_to_days_is_MakeDay.

Theorem c01_date_days_round_trip : forall day : Z,
  let '(y, m, d) := days_to_ymd day in ymd_to_days y m d = day.
Proof. exact ymd_days_round_trip. Qed.
Print Assumptions c01_date_days_round_trip.

Theorem c01_date_weekday_is_ecmascript : forall day : Z, days_to_weekday day = WeekDay day.
Proof. exact weekday_is_WeekDay. Qed.
Print Assumptions c01_date_weekday_is_ecmascript.

(* Date.UTC, the component constructor and the setters: for all integral components whose
   normalised year is within the guard, components_to_ts is TimeClip(MakeDate(MakeDay, MakeTime)). *)
Theorem c01_date_components_to_ts_is_MakeDate : forall year month day hour minute second ms : Z,
  Z.abs (year + month / 12) <= 400000 ->
  components_to_ts year month day hour minute second ms =
  TimeClip (MakeDate (MakeDay year month day) (MakeTime hour minute second ms)).
Proof. exact components_to_ts_is_MakeDate. Qed.
Print Assumptions c01_date_components_to_ts_is_MakeDate.

(* The getters: for every time value, the components are ECMAScript's. *)
Theorem c01_date_ts_to_components_is_ecmascript : forall ts : Z,
  let c := ts_to_components ts in
  is_civil (Day ts) (c_year c) (c_month c) (c_day c) /\
  c_hour c = HourFromTime ts /\ c_minute c = MinFromTime ts /\ c_second c = SecFromTime ts /\
  c_ms c = msFromTime ts /\ c_weekday c = WeekDay (Day ts).
Proof. exact ts_to_components_is_ecmascript. Qed.
Print Assumptions c01_date_ts_to_components_is_ecmascript.

(* Every time value in range is rebuilt exactly from its own components (what a setter relies on
   for the fields it does not change). *)
Theorem c01_date_components_round_trip : forall ts : Z, Z.abs ts <= 8640000000000000 ->
  let c := ts_to_components ts in
  components_to_ts (c_year c) (c_month c - 1) (c_day c) (c_hour c) (c_minute c) (c_second c) (c_ms c) = Some ts.
Proof. exact components_round_trip. Qed.
Print Assumptions c01_date_components_round_trip.

Example c01_date_witness :
  days_to_ymd 18321 = (2020, 2, 29) /\ ymd_to_days 2020 2 29 = 18321 /\ days_to_weekday 18321 = 6 /\
  days_to_ymd (-719468 - 1) = (0, 2, 29) /\
  components_to_ts 2020 13 31 25 0 0 0 = Some 1614819600000 /\
  components_to_ts 275760 8 13 0 0 0 1 = None /\ Z.abs (275760 + 8 / 12) <= 400000.
Proof. repeat split; try (vm_compute; reflexivity). vm_compute. intros E; discriminate E. Qed.
