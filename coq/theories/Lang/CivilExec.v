(* C01, mechanism M5: rendering of Lang/Civil.v for the correspondence check. *)
From Coq Require Import ZArith List String Bool.
From TsrunV Require Import Base.Render Lang.Civil.
Import ListNotations.
Local Open Scope string_scope.
Local Open Scope Z_scope.

(* what the getUTC* methods of new Date(ts) return, in the order
   year, month (1-based), date, hours, minutes, seconds, milliseconds, weekday *)
Definition getters_case (ts : Z) : string :=
  let c := ts_to_components ts in
  String.concat "," (map string_of_Z [c_year c; c_month c; c_day c; c_hour c; c_minute c; c_second c; c_ms c; c_weekday c]).

(* MakeFullYear as the constructor and Date.UTC apply it *)
Definition full_year (y : Z) : Z := if (0 <=? y) && (y <=? 99) then 1900 + y else y.

Definition utc_case (year month day hour minute second ms : Z) : string :=
  match components_to_ts (full_year year) month day hour minute second ms with
  | Some t => string_of_Z t
  | None => "NaN"
  end.

(* the specification side: TimeClip(MakeDate(MakeDay, MakeTime)) *)
Definition utc_spec_case (year month day hour minute second ms : Z) : string :=
  match TimeClip (MakeDate (MakeDay (full_year year) month day) (MakeTime hour minute second ms)) with
  | Some t => string_of_Z t
  | None => "NaN"
  end.
