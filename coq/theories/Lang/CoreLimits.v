(* When does the compiler of Lang/Core.v refuse a program? Exactly when one
   expression needs more than the 255 registers of a frame: the need of a
   construct is a function of that construct alone, and a sequence of
   statements is accepted as soon as each of them is. *)
From Coq Require Import String ZArith Bool List Arith Lia.
From TsrunV Require Import Lang.Core.
Import ListNotations.

Section Limits.
  Variable bop uop : Type.
  Notation expr := (expr bop uop).
  Notation stmt := (stmt bop uop).
  Notation cexpr := (@cexpr bop uop).
  Notation cstmt := (@cstmt bop uop).
  Notation cstmts := (@cstmts bop uop).

  (* registers an expression needs above the allocator's current position *)
  Fixpoint eneed (e : expr) : nat :=
    match e with
    | ELit _ _ _ | EVar _ _ _ => 0
    | EBin _ _ _ a b => Nat.max (1 + eneed a) (2 + eneed b)
    | EUn _ _ _ a | ETypeof _ _ a => 1 + eneed a
    | ETypeofVar _ _ _ => 1
    | ELog _ _ _ a b => Nat.max (eneed a) (eneed b)
    | ECond _ _ c a b => Nat.max (1 + eneed c) (Nat.max (eneed a) (eneed b))
    | EAssign _ _ _ a => eneed a
    | ECompound _ _ _ _ a => 1 + eneed a
    | ELogAssign _ _ _ _ a => eneed a
    end.

  Lemma alloc_iff next : (exists r, alloc next = Some r) <-> next < max_reg.
  Proof.
    unfold alloc. destruct (next <? max_reg) eqn:E.
    - apply Nat.ltb_lt in E. split; [intros _; exact E|intros _; eexists; reflexivity].
    - apply Nat.ltb_ge in E. split; [intros [r H]; discriminate|intros H; lia].
  Qed.

  Definition accepted {A} (o : option A) : Prop := exists c, o = Some c.

  Lemma cexpr_accepts : forall e dst next pc, next <= max_reg -> (accepted (cexpr e dst next pc) <-> next + eneed e <= max_reg).
  Proof.
    unfold accepted.
    induction e as [l|x|o a IHa b IHb|o a IHa|a IHa|x|o a IHa b IHb|c0 IHc a IHa b IHb|x a IHa|o x a IHa|o x a IHa];
      intros dst next pc Hle; cbn [Core.cexpr eneed].
    - split; [intros _; lia|intros _; eexists; reflexivity].
    - split; [intros _; lia|intros _; eexists; reflexivity].
    - unfold alloc. destruct (next <? max_reg) eqn:E1; [apply Nat.ltb_lt in E1|apply Nat.ltb_ge in E1; split; [intros [c H]; discriminate|lia]].
      destruct (cexpr a next (S next) pc) as [ca|] eqn:Ca.
      + assert (Ha : S next + eneed a <= max_reg) by (apply (IHa next (S next) pc ltac:(lia)); eexists; exact Ca).
        destruct (S next <? max_reg) eqn:E2; [apply Nat.ltb_lt in E2|apply Nat.ltb_ge in E2; split; [intros [c H]; discriminate|lia]].
        destruct (cexpr b (S next) (S (S next)) (pc + length ca)) as [cb|] eqn:Cb.
        * assert (Hb : S (S next) + eneed b <= max_reg) by (apply (IHb (S next) (S (S next)) (pc + length ca) ltac:(lia)); eexists; exact Cb).
          split; [intros _; lia|intros _; eexists; reflexivity].
        * split; [intros [c H]; discriminate|]. intros H. exfalso.
          assert (Hb : S (S next) + eneed b <= max_reg) by lia.
          apply (IHb (S next) (S (S next)) (pc + length ca) ltac:(lia)) in Hb. destruct Hb as [c Hc]. congruence.
      + split; [intros [c H]; discriminate|]. intros H. exfalso.
        assert (Ha : S next + eneed a <= max_reg) by lia.
        apply (IHa next (S next) pc ltac:(lia)) in Ha. destruct Ha as [c Hc]. congruence.
    - unfold alloc. destruct (next <? max_reg) eqn:E1; [apply Nat.ltb_lt in E1|apply Nat.ltb_ge in E1; split; [intros [c H]; discriminate|lia]].
      destruct (cexpr a next (S next) pc) as [ca|] eqn:Ca.
      + assert (Ha : S next + eneed a <= max_reg) by (apply (IHa next (S next) pc ltac:(lia)); eexists; exact Ca).
        split; [intros _; lia|intros _; eexists; reflexivity].
      + split; [intros [c H]; discriminate|]. intros H. exfalso.
        assert (Ha : S next + eneed a <= max_reg) by lia.
        apply (IHa next (S next) pc ltac:(lia)) in Ha. destruct Ha as [c Hc]. congruence.
    - unfold alloc. destruct (next <? max_reg) eqn:E1; [apply Nat.ltb_lt in E1|apply Nat.ltb_ge in E1; split; [intros [c H]; discriminate|lia]].
      destruct (cexpr a next (S next) pc) as [ca|] eqn:Ca.
      + assert (Ha : S next + eneed a <= max_reg) by (apply (IHa next (S next) pc ltac:(lia)); eexists; exact Ca).
        split; [intros _; lia|intros _; eexists; reflexivity].
      + split; [intros [c H]; discriminate|]. intros H. exfalso.
        assert (Ha : S next + eneed a <= max_reg) by lia.
        apply (IHa next (S next) pc ltac:(lia)) in Ha. destruct Ha as [c Hc]. congruence.
    - unfold alloc. destruct (next <? max_reg) eqn:E1; [apply Nat.ltb_lt in E1|apply Nat.ltb_ge in E1; split; [intros [c H]; discriminate|lia]].
      split; [intros _; lia|intros _; eexists; reflexivity].
    - destruct (cexpr a dst next pc) as [ca|] eqn:Ca.
      + assert (Ha : next + eneed a <= max_reg) by (apply (IHa dst next pc ltac:(lia)); eexists; exact Ca).
        destruct (cexpr b dst next (pc + length ca + 1)) as [cb|] eqn:Cb.
        * assert (Hb : next + eneed b <= max_reg) by (apply (IHb dst next (pc + length ca + 1) ltac:(lia)); eexists; exact Cb).
          split; [intros _; lia|intros _; eexists; reflexivity].
        * split; [intros [c H]; discriminate|]. intros H. exfalso.
          assert (Hb : next + eneed b <= max_reg) by lia.
          apply (IHb dst next (pc + length ca + 1) ltac:(lia)) in Hb. destruct Hb as [c Hc]. congruence.
      + split; [intros [c H]; discriminate|]. intros H. exfalso.
        assert (Ha : next + eneed a <= max_reg) by lia.
        apply (IHa dst next pc ltac:(lia)) in Ha. destruct Ha as [c Hc]. congruence.
    - unfold alloc. destruct (next <? max_reg) eqn:E1; [apply Nat.ltb_lt in E1|apply Nat.ltb_ge in E1; split; [intros [c H]; discriminate|lia]].
      destruct (cexpr c0 next (S next) pc) as [cc|] eqn:Cc.
      + assert (Hc : S next + eneed c0 <= max_reg) by (apply (IHc next (S next) pc ltac:(lia)); eexists; exact Cc).
        destruct (cexpr a dst next (pc + length cc + 1)) as [ca|] eqn:Ca.
        * assert (Ha : next + eneed a <= max_reg) by (apply (IHa dst next (pc + length cc + 1) ltac:(lia)); eexists; exact Ca).
          destruct (cexpr b dst next (pc + length cc + 1 + length ca + 1)) as [cb|] eqn:Cb.
          -- assert (Hb : next + eneed b <= max_reg) by (apply (IHb dst next (pc + length cc + 1 + length ca + 1) ltac:(lia)); eexists; exact Cb).
             split; [intros _; lia|intros _; eexists; reflexivity].
          -- split; [intros [c H]; discriminate|]. intros H. exfalso.
             assert (Hb : next + eneed b <= max_reg) by lia.
             apply (IHb dst next (pc + length cc + 1 + length ca + 1) ltac:(lia)) in Hb. destruct Hb as [c Hc']. congruence.
        * split; [intros [c H]; discriminate|]. intros H. exfalso.
          assert (Ha : next + eneed a <= max_reg) by lia.
          apply (IHa dst next (pc + length cc + 1) ltac:(lia)) in Ha. destruct Ha as [c Hc']. congruence.
      + split; [intros [c H]; discriminate|]. intros H. exfalso.
        assert (Hc : S next + eneed c0 <= max_reg) by lia.
        apply (IHc next (S next) pc ltac:(lia)) in Hc. destruct Hc as [c Hc']. congruence.
    - destruct (cexpr a dst next pc) as [ca|] eqn:Ca.
      + assert (Ha : next + eneed a <= max_reg) by (apply (IHa dst next pc ltac:(lia)); eexists; exact Ca).
        split; [intros _; lia|intros _; eexists; reflexivity].
      + split; [intros [c H]; discriminate|]. intros H. exfalso.
        apply (IHa dst next pc ltac:(lia)) in H. destruct H as [c Hc]. congruence.
    - unfold alloc. destruct (next <? max_reg) eqn:E1; [apply Nat.ltb_lt in E1|apply Nat.ltb_ge in E1; split; [intros [c H]; discriminate|lia]].
      destruct (cexpr a next (S next) (pc + 1)) as [ca|] eqn:Ca.
      + assert (Ha : S next + eneed a <= max_reg) by (apply (IHa next (S next) (pc + 1) ltac:(lia)); eexists; exact Ca).
        split; [intros _; lia|intros _; eexists; reflexivity].
      + split; [intros [c H]; discriminate|]. intros H. exfalso.
        assert (Ha : S next + eneed a <= max_reg) by lia.
        apply (IHa next (S next) (pc + 1) ltac:(lia)) in Ha. destruct Ha as [c Hc]. congruence.
    - destruct (cexpr a dst next (pc + 2)) as [ca|] eqn:Ca.
      + assert (Ha : next + eneed a <= max_reg) by (apply (IHa dst next (pc + 2) ltac:(lia)); eexists; exact Ca).
        split; [intros _; lia|intros _; eexists; reflexivity].
      + split; [intros [c H]; discriminate|]. intros H. exfalso.
        apply (IHa dst next (pc + 2) ltac:(lia)) in H. destruct H as [c Hc]. congruence.
  Qed.

  (* ---- statements ---- *)
  Fixpoint sneed (s : stmt) : nat :=
    match s with
    | SEmpty _ _ | SBreak _ _ | SContinue _ _ => 0
    | SExpr _ _ e | SDecl _ _ _ _ e => 1 + eneed e
    | SBlock _ _ body => (fix go (l : list stmt) : nat := match l with [] => 0 | s1 :: r => Nat.max (sneed s1) (go r) end) body
    | SIf _ _ c t None => Nat.max (1 + eneed c) (sneed t)
    | SIf _ _ c t (Some e) => Nat.max (1 + eneed c) (Nat.max (sneed t) (sneed e))
    | SWhile _ _ c body => Nat.max (1 + eneed c) (sneed body)
    end.
  (* break / continue only inside a loop *)
  Fixpoint jumps_ok (in_loop : bool) (s : stmt) : bool :=
    match s with
    | SBreak _ _ | SContinue _ _ => in_loop
    | SBlock _ _ body => (fix go (l : list stmt) : bool := match l with [] => true | s1 :: r => jumps_ok in_loop s1 && go r end) body
    | SIf _ _ _ t None => jumps_ok in_loop t
    | SIf _ _ _ t (Some e) => jumps_ok in_loop t && jumps_ok in_loop e
    | SWhile _ _ _ body => jumps_ok true body
    | _ => true
    end.
  Definition bneed := fix go (l : list stmt) : nat := match l with [] => 0 | s1 :: r => Nat.max (sneed s1) (go r) end.
  Definition bjumps (in_loop : bool) := fix go (l : list stmt) : bool := match l with [] => true | s1 :: r => jumps_ok in_loop s1 && go r end.
  Definition cblock (lc : option loopctx) (next : nat) :=
    fix go (l : list stmt) (pc0 : nat) : option (list (op bop uop)) :=
      match l with
      | [] => Some []
      | s1 :: r => match cstmt s1 (deeper lc) next pc0 with None => None | Some c1 =>
                   match go r (pc0 + length c1) with None => None | Some cr => Some (c1 ++ cr) end end
      end.
  Definition in_loop (lc : option loopctx) : bool := match lc with Some _ => true | None => false end.
  Lemma in_loop_deeper lc : in_loop (deeper lc) = in_loop lc.
  Proof. destruct lc; reflexivity. Qed.

  Lemma cstmt_accepts : forall s lc next pc, next <= max_reg ->
      (accepted (cstmt s lc next pc) <-> jumps_ok (in_loop lc) s = true /\ next + sneed s <= max_reg).
  Proof.
    fix IH 1. intros s lc next pc Hle. destruct s as [e|m x e|body|c0 t e|c0 body| | |]; cbn [Core.cstmt sneed jumps_ok].
    - unfold alloc. destruct (next <? max_reg) eqn:E1; [apply Nat.ltb_lt in E1|apply Nat.ltb_ge in E1; split; [intros [c H]; discriminate|intros [_ H]; lia]].
      rewrite (cexpr_accepts e next (S next) pc ltac:(lia)). split; [intros H; split; [reflexivity|lia]|intros [_ H]; lia].
    - unfold alloc. destruct (next <? max_reg) eqn:E1; [apply Nat.ltb_lt in E1|apply Nat.ltb_ge in E1; split; [intros [c H]; discriminate|intros [_ H]; lia]].
      pose proof (cexpr_accepts e next (S next) pc ltac:(lia)) as He.
      destruct (cexpr e next (S next) pc) as [ce|].
      + split; [intros _; split; [reflexivity|]|intros _; eexists; reflexivity].
        assert (S next + eneed e <= max_reg) by (apply He; eexists; reflexivity). lia.
      + split; [intros [c H]; discriminate|]. intros [_ H]. exfalso.
        assert (Hx : S next + eneed e <= max_reg) by lia. apply He in Hx. destruct Hx as [c Hc]. discriminate.
    - fold (cblock lc next). fold bneed. fold (bjumps (in_loop lc)).
      assert (G : forall l pc0, accepted (cblock lc next l pc0) <-> bjumps (in_loop lc) l = true /\ next + bneed l <= max_reg).
      { induction l as [|s1 l IHl]; intros pc0; cbn [cblock bneed bjumps].
        - split; [intros _; split; [reflexivity|lia]|intros _; eexists; reflexivity].
        - fold (cblock lc next). fold bneed. fold (bjumps (in_loop lc)).
          pose proof (IH s1 (deeper lc) next pc0 Hle) as H1. rewrite in_loop_deeper in H1.
          destruct (cstmt s1 (deeper lc) next pc0) as [c1|].
          + assert (A1 : jumps_ok (in_loop lc) s1 = true /\ next + sneed s1 <= max_reg) by (apply H1; eexists; reflexivity).
            destruct A1 as [J1 N1]. rewrite J1. cbn [andb].
            pose proof (IHl (pc0 + length c1)) as H2.
            destruct (cblock lc next l (pc0 + length c1)) as [cr|].
            * assert (A2 : bjumps (in_loop lc) l = true /\ next + bneed l <= max_reg) by (apply H2; eexists; reflexivity).
              destruct A2 as [J2 N2]. split; [intros _; split; [exact J2|lia]|intros _; eexists; reflexivity].
            * split; [intros [c H]; discriminate|]. intros [J2 N2]. exfalso.
              assert (A2 : accepted (@None (list (op bop uop)))) by (apply H2; split; [exact J2|lia]). destruct A2 as [c Hc]. discriminate.
          + split; [intros [c H]; discriminate|]. intros [J N]. exfalso. apply andb_prop in J. destruct J as [J1 J2].
            assert (A1 : accepted (@None (list (op bop uop)))) by (apply H1; split; [exact J1|lia]). destruct A1 as [c Hc]. discriminate. }
      specialize (G body (pc + 1)).
      destruct (cblock lc next body (pc + 1)) as [cb|].
      + assert (A : bjumps (in_loop lc) body = true /\ next + bneed body <= max_reg) by (apply G; eexists; reflexivity).
        split; [intros _; exact A|intros _; eexists; reflexivity].
      + split; [intros [c H]; discriminate|]. intros A. apply G in A. destruct A as [c Hc]. discriminate.
    - unfold alloc. destruct (next <? max_reg) eqn:E1; [apply Nat.ltb_lt in E1|apply Nat.ltb_ge in E1; split; [intros [c H]; discriminate|destruct e; intros [_ H]; lia]].
      pose proof (cexpr_accepts c0 next (S next) pc ltac:(lia)) as Hc.
      destruct (cexpr c0 next (S next) pc) as [cc|].
      + assert (Nc : S next + eneed c0 <= max_reg) by (apply Hc; eexists; reflexivity).
        pose proof (IH t lc next (pc + length cc + 1) Hle) as Ht.
        destruct (cstmt t lc next (pc + length cc + 1)) as [ct|].
        * assert (At : jumps_ok (in_loop lc) t = true /\ next + sneed t <= max_reg) by (apply Ht; eexists; reflexivity).
          destruct At as [Jt Nt]. destruct e as [s2|].
          -- pose proof (IH s2 lc next (pc + length cc + 1 + length ct + 1) Hle) as He.
             destruct (cstmt s2 lc next (pc + length cc + 1 + length ct + 1)) as [ce|].
             ++ assert (Ae : jumps_ok (in_loop lc) s2 = true /\ next + sneed s2 <= max_reg) by (apply He; eexists; reflexivity).
                destruct Ae as [Je Ne]. rewrite Jt, Je. split; [intros _; split; [reflexivity|lia]|intros _; eexists; reflexivity].
             ++ split; [intros [c H]; discriminate|]. intros [J N]. exfalso. apply andb_prop in J. destruct J as [J1 J2].
                assert (A : accepted (@None (list (op bop uop)))) by (apply He; split; [exact J2|lia]). destruct A as [c Hc']. discriminate.
          -- split; [intros _; split; [exact Jt|lia]|intros _; eexists; reflexivity].
        * split; [intros [c H]; discriminate|]. intros A. exfalso.
          assert (A' : accepted (@None (list (op bop uop)))).
          { apply Ht. destruct e as [s2|]; destruct A as [J N]; [apply andb_prop in J; destruct J as [J1 J2]; split; [exact J1|lia]|split; [exact J|lia]]. }
          destruct A' as [c Hc']. discriminate.
      + split; [intros [c H]; discriminate|]. intros A. exfalso.
        assert (Hx : S next + eneed c0 <= max_reg) by (destruct e; destruct A as [_ N]; lia).
        apply Hc in Hx. destruct Hx as [c Hc']. discriminate.
    - unfold alloc. destruct (next <? max_reg) eqn:E1; [apply Nat.ltb_lt in E1|apply Nat.ltb_ge in E1; split; [intros [c H]; discriminate|intros [_ H]; lia]].
      pose proof (cexpr_accepts c0 next (S next) pc ltac:(lia)) as Hc.
      destruct (cexpr c0 next (S next) pc) as [cc|].
      + assert (Nc : S next + eneed c0 <= max_reg) by (apply Hc; eexists; reflexivity).
        match goal with |- context [cstmt body ?l next ?p] => pose proof (IH body l next p Hle) as Hb; destruct (cstmt body l next p) as [cb|] end.
        * assert (Ab : jumps_ok true body = true /\ next + sneed body <= max_reg) by (apply Hb; eexists; reflexivity).
          destruct Ab as [Jb Nb]. split; [intros _; split; [exact Jb|lia]|intros _; eexists; reflexivity].
        * split; [intros [c H]; discriminate|]. intros [J N]. exfalso.
          assert (A : accepted (@None (list (op bop uop)))) by (apply Hb; split; [exact J|lia]). destruct A as [c Hc']. discriminate.
      + split; [intros [c H]; discriminate|]. intros [J N]. exfalso.
        assert (Hx : S next + eneed c0 <= max_reg) by lia. apply Hc in Hx. destruct Hx as [c Hc']. discriminate.
    - destruct lc as [l0|]; cbn [in_loop]; split; try (intros _; split; [reflexivity|lia]); try (intros _; eexists; reflexivity).
      + intros [c H]; discriminate.
      + intros [H _]; discriminate.
    - destruct lc as [l0|]; cbn [in_loop]; split; try (intros _; split; [reflexivity|lia]); try (intros _; eexists; reflexivity).
      + intros [c H]; discriminate.
      + intros [H _]; discriminate.
    - split; [intros _; split; [reflexivity|lia]|intros _; eexists; reflexivity].
  Qed.

  (* limits are per statement, never cumulative: a statement list is accepted
     exactly when each statement is accepted on its own *)
  Theorem statements_accepted_separately : forall l next pc, next <= max_reg ->
      (accepted (cstmts l next pc) <-> Forall (fun s => accepted (cstmt s None next 0)) l).
  Proof.
    induction l as [|s1 l IHl]; intros next pc Hle; cbn [Core.cstmts].
    - split; [intros _; constructor|intros _; eexists; reflexivity].
    - pose proof (cstmt_accepts s1 None next pc Hle) as H1. pose proof (cstmt_accepts s1 None next 0 Hle) as H0.
      destruct (cstmt s1 None next pc) as [c1|].
      + assert (A1 : accepted (cstmt s1 None next 0)) by (apply H0; apply H1; eexists; reflexivity).
        pose proof (IHl next (pc + length c1) Hle) as H2.
        destruct (cstmts l next (pc + length c1)) as [cr|].
        * split; [intros _; constructor; [exact A1|apply H2; eexists; reflexivity]|intros _; eexists; reflexivity].
        * split; [intros [c H]; discriminate|]. intros F. inversion F as [|? ? _ F2]; subst. apply H2 in F2. destruct F2 as [c Hc]. discriminate.
      + split; [intros [c H]; discriminate|]. intros F. inversion F as [|? ? F1 _]; subst.
        apply H0 in F1. apply H1 in F1. destruct F1 as [c Hc]. discriminate.
  Qed.
End Limits.
