(* C06 -- property theorems only. *)
From Coq Require Import List Arith.
From TsrunV Require Import Lang.Trampoline.
Import ListNotations.

Theorem c06_step_is_one_instruction : forall fuel p v, ~ reenters p v -> cur v <> None ->
  let '(v', w, d) := step fuel p v in w = 1 /\ d = native_depth v /\ native_depth v' = native_depth v.
Proof. exact step_is_one_instruction. Qed.
Print Assumptions c06_step_is_one_instruction.

Theorem c06_recursion_costs_no_native_stack : forall n fuel,
  let '(v, w, d) := steps fuel recursive_program n (mkVM (Some (mkF 0 0)) [] 0) in
  length (tramp v) = n /\ w <= 1 /\ d = 0 /\ native_depth v = 0.
Proof. exact recursion_depth_costs_no_native_stack. Qed.
Print Assumptions c06_recursion_costs_no_native_stack.

Theorem c06_call_depth_is_host_visible : forall fuel p v, cur v <> None ->
  let '(v', _, _) := step fuel p v in
  match cur v with
  | Some fr => match fetch p fr with
               | Some (ICall _) => length (tramp v') = S (length (tramp v))
               | Some IRet | None => length (tramp v') = Nat.pred (length (tramp v))
               | _ => length (tramp v') = length (tramp v)
               end
  | None => True
  end.
Proof. exact call_depth_is_host_visible. Qed.
Print Assumptions c06_call_depth_is_host_visible.

(* known finding: natives that call back into script run a nested VM loop inside one step *)
Theorem c06_reentry_exceeds_one_refuted :
  let p : program := fun f => match f with 0 => [INative (Some 1)] | _ => [IPlain; IPlain; IPlain] end in
  let '(_, w, d) := step 100 p (mkVM (Some (mkF 0 0)) [] 0) in w = 5 /\ d = 1.
Proof. exact reentry_exceeds_one. Qed.
Print Assumptions c06_reentry_exceeds_one_refuted.
