(* Executable instance of Lang/Ops.v over Coq's primitive IEEE doubles, used by
   the correspondence check (vm_compute). ToNumber on strings and
   Number::toString are finite tables supplied per run by the harness (they
   are C15's subject); remainder and exponentiation are not primitives of
   PrimFloat and are likewise table-driven. *)
From Coq Require Import String ZArith Bool List Floats.
From TsrunV Require Import Lang.Ops Num.Model Base.Render.
Import ListNotations.
Local Open Scope float_scope.

Definition fbits (x : float) : string :=
  match Prim2SF x with
  | S754_zero s => if s then "-0" else "0"
  | S754_infinity s => if s then "-inf" else "inf"
  | S754_nan => "nan"
  | S754_finite s m e => String.append (if s then "f-" else "f+")
                           (String.append (string_of_Z (Zpos m)) (String.append "e" (string_of_Z e)))
  end%string.

(* truncation toward zero of a finite double, as an integer *)
Definition ftrunc (x : float) : option Z :=
  match Prim2SF x with
  | S754_zero _ => Some 0%Z
  | S754_finite s m e =>
      let v := if (0 <=? e)%Z then (Zpos m * 2 ^ e)%Z else Z.quot (Zpos m) (2 ^ (- e)) in
      Some (if s then (- v)%Z else v)
  | _ => None
  end.
Definition f_toint32 (x : float) : Z := match ftrunc x with Some t => to_int32 t | None => 0%Z end.
Definition f_touint32 (x : float) : Z := match ftrunc x with Some t => to_uint32 t | None => 0%Z end.
Definition f_ofint (z : Z) : float :=
  match z with
  | Z0 => 0
  | Zpos p => PrimFloat.of_uint63 (Uint63.of_Z (Zpos p))
  | Zneg p => - PrimFloat.of_uint63 (Uint63.of_Z (Zpos p))
  end.

Section Tables.
  Variable tonum_tab : list (string * float).
  Variable tostr_tab : list (string * string).      (* bits rendering -> Number::toString *)
  Variable rem_tab pow_tab : list (string * float). (* "bitsA|bitsB" -> result *)

  Fixpoint assoc {A} (k : string) (l : list (string * A)) (d : A) : A :=
    match l with [] => d | (k', v) :: r => if String.eqb k k' then v else assoc k r d end.
  Definition x_tonum (s : string) : float := assoc s tonum_tab nan.
  Definition x_tostr (x : float) : string := assoc (fbits x) tostr_tab "?"%string.
  Definition key2 (a b : float) : string := String.append (fbits a) (String.append "|" (fbits b)).
  Definition x_rem (a b : float) : float := assoc (key2 a b) rem_tab nan.
  Definition x_pow (a b : float) : float := assoc (key2 a b) pow_tab nan.
  (* UTF-16 code unit order on the harness's operand pool is supplied as a rank table *)
  Variable rank_tab : list (string * Z).
  Definition x_str_lt (a b : string) : bool := (assoc a rank_tab 0 <? assoc b rank_tab 0)%Z.

  Definition P := prim float.
  Definition run_bin (o : binop) (a b : P) : P :=
    vm_binop float PrimFloat.add PrimFloat.sub PrimFloat.mul PrimFloat.div x_rem x_pow PrimFloat.abs
             PrimFloat.ltb PrimFloat.eqb nan 0 1 infinity PrimFloat.is_nan x_tonum x_tostr f_toint32 f_touint32 f_ofint x_str_lt o a b.
  Definition run_un (o : unop) (a : P) : P :=
    vm_unop float PrimFloat.opp PrimFloat.eqb nan 0 1 PrimFloat.is_nan x_tonum f_toint32 f_ofint o a.

  Definition show (v : P) : string :=
    match v with
    | PUndef _ => "undefined" | PNull _ => "null" | PBool _ true => "true" | PBool _ false => "false"
    | PNum _ x => String.append "n:" (fbits x)
    | PStr _ s => String.append "s:" (hex_of_string s)
    end%string.
End Tables.
