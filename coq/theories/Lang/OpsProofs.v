From Coq Require Import String ZArith Bool List.
From TsrunV Require Import Lang.Ops.
Import ListNotations.

Section Proofs.
  Variable F : Type.
  Variables fadd fsub fmul fdiv frem fpow : F -> F -> F.
  Variable fneg fabs : F -> F.
  Variables flt feq : F -> F -> bool.
  Variables fnan fzero fone finf : F.
  Variable fisnan : F -> bool.
  Variable tonum : string -> F.
  Variable tostr : F -> string.
  Variable toint32 touint32 : F -> Z.
  Variable ofint : Z -> F.
  Variable str_lt : string -> string -> bool.

  (* IEEE 754 comparison facts (trusted; they hold of f64 and of Coq's PrimFloat) *)
  Hypothesis lt_not_nan : forall x y, flt x y = true -> fisnan x = false /\ fisnan y = false.
  Hypothesis eq_not_nan : forall x y, feq x y = true -> fisnan x = false /\ fisnan y = false.
  Hypothesis trichotomy : forall x y, fisnan x = false -> fisnan y = false ->
    (flt x y || feq x y) = negb (flt y x).
  Hypothesis lt_irrefl_eq : forall x y, flt x y = true -> feq x y = false.
  Hypothesis str_lt_asym : forall a b, str_lt a b = true -> str_lt b a = false.

  Notation prim := (prim F).
  Notation vm := (vm_binop F fadd fsub fmul fdiv frem fpow fabs flt feq fnan fzero fone finf fisnan tonum tostr toint32 touint32 ofint str_lt).
  Notation es := (es_binop F fadd fsub fmul fdiv frem fpow fabs flt feq fnan fzero fone finf fisnan tonum tostr toint32 touint32 ofint str_lt).

  Lemma to_number_spec v : to_number F fnan fzero fone tonum v = ToNumber F fnan fzero fone tonum v.
  Proof. destruct v as [| |[|]|x|s]; reflexivity. Qed.
  Lemma to_string_spec v : to_js_string F tostr v = ToString F tostr v.
  Proof. destruct v as [| |[|]|x|s]; reflexivity. Qed.
  Lemma to_boolean_spec v : to_boolean F feq fzero fisnan v = ToBoolean F feq fzero fisnan v.
  Proof.
    destruct v as [| |b|x|s]; simpl; try reflexivity;
      try (destruct (fisnan x), (feq x fzero); reflexivity); try (destruct (String.eqb s ""); reflexivity).
  Qed.

  Lemma feq_nan_l x y : fisnan x = true -> feq x y = false.
  Proof. intros H. destruct (feq x y) eqn:E; auto. apply eq_not_nan in E as [A _]. congruence. Qed.
  Lemma feq_nan_r x y : fisnan y = true -> feq x y = false.
  Proof. intros H. destruct (feq x y) eqn:E; auto. apply eq_not_nan in E as [_ A]. congruence. Qed.

  Lemma strict_spec a b : strict_equals F feq fisnan a b = IsStrictlyEqual F feq fisnan a b.
  Proof.
    destruct a as [| |[|]|x|s], b as [| |[|]|y|t]; simpl; try reflexivity.
    destruct (fisnan x), (fisnan y); reflexivity.
  Qed.

  Lemma num_eq_spec x y : feq x y = IsStrictlyEqual F feq fisnan (PNum F x) (PNum F y).
  Proof.
    simpl. destruct (fisnan x) eqn:A; [apply feq_nan_l; auto|].
    destruct (fisnan y) eqn:B; [apply feq_nan_r; auto|]. reflexivity.
  Qed.

  Lemma loose_spec a b :
    abstract_equals F feq fzero fone fisnan tonum a b = IsLooselyEqual F feq fnan fzero fone fisnan tonum 3 a b.
  Proof.
    destruct a as [| |[|]|x|s], b as [| |[|]|y|t]; cbn; try reflexivity; try apply num_eq_spec;
      try (destruct (fisnan _); reflexivity).
    all: try (rewrite <- num_eq_spec; reflexivity).
  Qed.

  Lemma flt_nan_l x y : fisnan x = true -> flt x y = false.
  Proof. intros H. destruct (flt x y) eqn:E; auto. apply lt_not_nan in E as [A _]. congruence. Qed.
  Lemma flt_nan_r x y : fisnan y = true -> flt x y = false.
  Proof. intros H. destruct (flt x y) eqn:E; auto. apply lt_not_nan in E as [_ A]. congruence. Qed.

  (* the only possible outcomes of comparing two doubles *)
  Lemma cmp_cases p q :
    (fisnan p = true /\ flt p q = false /\ feq p q = false /\ flt q p = false) \/
    (fisnan p = false /\ fisnan q = true /\ flt p q = false /\ feq p q = false /\ flt q p = false) \/
    (fisnan p = false /\ fisnan q = false /\
       ((flt p q = true /\ feq p q = false /\ flt q p = false) \/
        (flt p q = false /\ feq p q = true /\ flt q p = false) \/
        (flt p q = false /\ feq p q = false /\ flt q p = true))).
  Proof.
    destruct (fisnan p) eqn:A.
    - left. repeat split; auto using flt_nan_l, flt_nan_r, feq_nan_l.
    - destruct (fisnan q) eqn:B.
      + right; left. repeat split; auto using flt_nan_l, flt_nan_r, feq_nan_r.
      + right; right. repeat split; auto.
        pose proof (trichotomy p q A B) as T.
        destruct (flt p q) eqn:L; simpl in T.
        * left. repeat split; auto. destruct (flt q p); [discriminate|reflexivity].
        * destruct (feq p q) eqn:E; simpl in T.
          -- right; left. repeat split; auto. destruct (flt q p); [discriminate|reflexivity].
          -- right; right. repeat split; auto. destruct (flt q p); [reflexivity|discriminate].
  Qed.

  Ltac cmp p q :=
    destruct (cmp_cases p q) as [[A [L [E G]]]|[[A [B [L [E G]]]]|[A [B [[L [E G]]|[[L [E G]]|[L [E G]]]]]]]];
    rewrite ?A, ?B, ?L, ?E, ?G; try reflexivity; try (destruct (fisnan q); reflexivity); try congruence.

  Lemma order_lt a b :
    match relational_order F flt feq fnan fzero fone tonum str_lt a b with Some Less => true | _ => false end =
    match IsLessThan F flt fnan fzero fone fisnan tonum str_lt a b with Some true => true | _ => false end.
  Proof.
    unfold relational_order, IsLessThan; cbv zeta.
    destruct a as [| |[|]|x|s], b as [| |[|]|y|t]; cbn [to_number ToNumber];
    try (destruct (str_lt s t) eqn:E; [reflexivity|destruct (str_lt t s); reflexivity]);
    match goal with |- context [flt ?p ?q] => cmp p q end.
  Qed.

  Lemma order_le a b :
    match relational_order F flt feq fnan fzero fone tonum str_lt a b with Some Less | Some Equal => true | _ => false end =
    match IsLessThan F flt fnan fzero fone fisnan tonum str_lt b a with Some false => true | _ => false end.
  Proof.
    unfold relational_order, IsLessThan; cbv zeta.
    destruct a as [| |[|]|x|s], b as [| |[|]|y|t]; cbn [to_number ToNumber];
    try (destruct (str_lt s t) eqn:E; [rewrite (str_lt_asym _ _ E); reflexivity|destruct (str_lt t s); reflexivity]);
    match goal with |- context [flt ?p ?q] => cmp p q end.
  Qed.

  Lemma order_gt a b :
    match relational_order F flt feq fnan fzero fone tonum str_lt a b with Some Greater => true | _ => false end =
    match IsLessThan F flt fnan fzero fone fisnan tonum str_lt b a with Some true => true | _ => false end.
  Proof.
    unfold relational_order, IsLessThan; cbv zeta.
    destruct a as [| |[|]|x|s], b as [| |[|]|y|t]; cbn [to_number ToNumber];
    try (destruct (str_lt s t) eqn:E; [rewrite (str_lt_asym _ _ E); reflexivity|destruct (str_lt t s); reflexivity]);
    match goal with |- context [flt ?p ?q] => cmp p q end.
  Qed.

  Lemma order_ge a b :
    match relational_order F flt feq fnan fzero fone tonum str_lt a b with Some Greater | Some Equal => true | _ => false end =
    match IsLessThan F flt fnan fzero fone fisnan tonum str_lt a b with Some false => true | _ => false end.
  Proof.
    unfold relational_order, IsLessThan; cbv zeta.
    destruct a as [| |[|]|x|s], b as [| |[|]|y|t]; cbn [to_number ToNumber];
    try (destruct (str_lt s t) eqn:E; [reflexivity|destruct (str_lt t s); reflexivity]);
    match goal with |- context [flt ?p ?q] => cmp p q end.
  Qed.

  Lemma exp_spec x y : exponentiate F fpow fabs feq fnan fone finf fisnan x y = Exponentiate F fpow fabs feq fnan fone finf fisnan x y.
  Proof. unfold exponentiate, Exponentiate. destruct (fisnan y); reflexivity. Qed.

  (* M1: on primitive operands every binary operator of the VM is the ECMAScript operator *)
  Theorem binop_refines_es o a b : vm o a b = es o a b.
  Proof.
    destruct o; cbn [vm_binop es_binop i32_bin]; repeat rewrite to_number_spec; repeat rewrite to_boolean_spec; rewrite ?strict_spec, ?loose_spec, ?exp_spec;
      rewrite ?order_lt, ?order_le, ?order_gt, ?order_ge; try reflexivity;
      try (destruct a as [| |[|]|x|s], b as [| |[|]|y|t]; reflexivity); try (destruct a; reflexivity).
  Qed.

  Theorem unop_refines_es o a :
    vm_unop F fneg feq fnan fzero fone fisnan tonum toint32 ofint o a = es_unop F fneg feq fnan fzero fone fisnan tonum toint32 ofint o a.
  Proof. destruct o; cbn [vm_unop es_unop]; repeat rewrite to_number_spec; repeat rewrite to_boolean_spec; reflexivity. Qed.
End Proofs.
