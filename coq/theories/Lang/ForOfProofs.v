From Coq Require Import List Arith Bool Lia.
Import ListNotations.
From TsrunV Require Import Lang.ForOf.

Section Proofs.
Variable V : Type.
Variable undef : V.
Variable body : V -> outcome.

Notation st := (st V).
Notation run := (run V undef body).
Notation spec := (spec V body).

Definition code_at (code : list op) (p : nat) (seg : list op) : Prop :=
  forall j o, nth_error seg j = Some o -> nth_error code (j + p) = Some o.

Lemma code_at_embedded (pre seg post : list op) : code_at (pre ++ seg ++ post) (length pre) seg.
Proof.
  intros j o Hj. rewrite nth_error_app2 by lia.
  replace (j + length pre - length pre) with j by lia.
  rewrite nth_error_app1; [exact Hj|]. apply nth_error_Some. congruence.
Qed.

Lemma run_add lt code a b s :
  run lt code (a + b) s = match run lt code a s with Some s' => run lt code b s' | None => None end.
Proof.
  revert s; induction a as [|a IH]; intros s; cbn [ForOf.run Nat.add]; [reflexivity|].
  destruct (nth_error code (pc V s)); [apply IH|reflexivity].
Qed.

Ltac fetch H j :=
  let E := fresh "E" in pose proof (H j _ eq_refl) as E; cbn [Nat.add] in E; rewrite E; clear E.

Lemma skipn_succ_sub (A : Type) (x : A) (F : list A) : skipn (S (length F) - length F) (x :: F) = F.
Proof. replace (S (length F) - length F) with 1 by lia. reflexivity. Qed.

(* The loop: for every iterator, every body and every machine state, the instructions run the body
   as ECMAScript says and leave the environments and handlers as they found them. *)
Theorem cforof_correct code p (F : list (frame V)) T : code_at code p (cforof p) ->
  forall it r e nid l n,
  exists k it' r' e',
    run T code k (mk V p it r e F nid T l n false) =
    Some (let '(L, N, C, nid') := spec it nid in
          mk V (12 + p) it' r' e' F nid' T (l ++ L) (n + N) C).
Proof.
  intros H it. induction it as [|v it IH]; intros r e nid l n.
  - exists 2, [], (RDone V), e. cbn [ForOf.run pc]. fetch H 0. cbn [exec pc]. fetch H 1. cbn [exec pc ForOf.spec].
    rewrite app_nil_r. replace (n + 1) with (S n) by lia. reflexivity.
  - cbn [ForOf.spec]. destruct (body v) eqn:B.
    + (* the body completes: pop the handler and the iteration's environment, go round *)
      destruct (IH (RVal V v) v (S nid) (l ++ [(nid, Some v)]) (S n)) as (k & it' & r' & e' & E).
      exists (10 + k), it', r', e'. rewrite run_add.
      cbn [ForOf.run pc]. fetch H 0. cbn [exec pc]. fetch H 1. cbn [exec pc]. fetch H 2. cbn [exec pc].
      fetch H 3. cbn [exec pc]. fetch H 4. cbn [exec pc]. fetch H 5. cbn [exec pc]. fetch H 6. cbn [exec pc top_id]. rewrite B. cbv iota zeta. cbn [pc].
      fetch H 7. cbn [exec pc]. fetch H 8. cbn [exec pc tl]. fetch H 9. cbn [exec pc pred].
      rewrite E. destruct (spec it (S nid)) as [[[L N] C] nid'].
      rewrite <- app_assoc. cbn [app]. replace (S n + N) with (n + S N) by lia. reflexivity.
    + (* break: close, leave with the loop's own environments and handlers *)
      exists 7, it, (RVal V v), v.
      cbn [ForOf.run pc]. fetch H 0. cbn [exec pc]. fetch H 1. cbn [exec pc]. fetch H 2. cbn [exec pc].
      fetch H 3. cbn [exec pc]. fetch H 4. cbn [exec pc]. fetch H 5. cbn [exec pc]. fetch H 6. cbn [exec pc top_id]. rewrite B. cbv iota zeta. cbn [pc].
      cbn [skipn]. replace (n + 1) with (S n) by lia. reflexivity.
    + (* continue: back to the head with the loop's own environments and handlers *)
      destruct (IH (RVal V v) v (S nid) (l ++ [(nid, Some v)]) (S n)) as (k & it' & r' & e' & E).
      exists (7 + k), it', r', e'. rewrite run_add.
      cbn [ForOf.run pc]. fetch H 0. cbn [exec pc]. fetch H 1. cbn [exec pc]. fetch H 2. cbn [exec pc].
      fetch H 3. cbn [exec pc]. fetch H 4. cbn [exec pc]. fetch H 5. cbn [exec pc]. fetch H 6. cbn [exec pc top_id]. rewrite B. cbv iota zeta. cbn [pc].
      cbn [skipn].
      rewrite E. destruct (spec it (S nid)) as [[[L N] C] nid'].
      rewrite <- app_assoc. cbn [app]. replace (S n + N) with (n + S N) by lia. reflexivity.
Qed.

(* for-in: the same, without handler and without closing *)
Theorem cforin_correct code p (F : list (frame V)) T : code_at code p (cforin p) ->
  forall it r e nid l n,
  exists k it' r' e',
    run T code k (mk V p it r e F nid T l n false) =
    Some (let '(L, N, C, nid') := spec_in V body it nid in
          mk V (8 + p) it' r' e' F nid' T (l ++ L) (n + N) C).
Proof.
  intros H it. unfold spec_in. induction it as [|v it IH]; intros r e nid l n.
  - exists 2, [], (RDone V), e. cbn [ForOf.run pc]. fetch H 0. cbn [exec pc]. fetch H 1. cbn [exec pc ForOf.spec].
    rewrite app_nil_r. replace (n + 1) with (S n) by lia. reflexivity.
  - cbn [ForOf.spec]. destruct (body v) eqn:B.
    + destruct (IH (RVal V v) v (S nid) (l ++ [(nid, Some v)]) (S n)) as (k & it' & r' & e' & E).
      exists (8 + k), it', r', e'. rewrite run_add.
      cbn [ForOf.run pc]. fetch H 0. cbn [exec pc]. fetch H 1. cbn [exec pc]. fetch H 2. cbn [exec pc].
      fetch H 3. cbn [exec pc]. fetch H 4. cbn [exec pc]. fetch H 5. cbn [exec pc top_id]. rewrite B. cbv iota zeta. cbn [pc].
      fetch H 6. cbn [exec pc tl]. fetch H 7. cbn [exec pc].
      rewrite E. destruct (spec it (S nid)) as [[[L N] C] nid'].
      rewrite <- app_assoc. cbn [app]. replace (S n + N) with (n + S N) by lia. reflexivity.
    + exists 6, it, (RVal V v), v.
      cbn [ForOf.run pc]. fetch H 0. cbn [exec pc]. fetch H 1. cbn [exec pc]. fetch H 2. cbn [exec pc].
      fetch H 3. cbn [exec pc]. fetch H 4. cbn [exec pc]. fetch H 5. cbn [exec pc top_id]. rewrite B. cbv iota zeta. cbn [pc].
      cbn [skipn]. replace (n + 1) with (S n) by lia. reflexivity.
    + destruct (IH (RVal V v) v (S nid) (l ++ [(nid, Some v)]) (S n)) as (k & it' & r' & e' & E).
      exists (6 + k), it', r', e'. rewrite run_add.
      cbn [ForOf.run pc]. fetch H 0. cbn [exec pc]. fetch H 1. cbn [exec pc]. fetch H 2. cbn [exec pc].
      fetch H 3. cbn [exec pc]. fetch H 4. cbn [exec pc]. fetch H 5. cbn [exec pc top_id]. rewrite B. cbv iota zeta. cbn [pc].
      cbn [skipn].
      rewrite E. destruct (spec it (S nid)) as [[[L N] C] nid'].
      rewrite <- app_assoc. cbn [app]. replace (S n + N) with (n + S N) by lia. reflexivity.
Qed.

(* ---- the meaning in closed form ---- *)

Lemma spec_log it : forall nid,
  let '(L, N, C, nid') := spec it nid in
  map snd L = map Some (upto_break V body it) /\
  map fst L = seq nid (length (upto_break V body it)) /\
  N = (if C then length (upto_break V body it) else S (length it)) /\
  C = existsb (fun v => match body v with Brk => true | _ => false end) it /\
  nid' = nid + length (upto_break V body it).
Proof.
  induction it as [|v it IH]; intros nid; cbn [ForOf.spec upto_break].
  - cbn. repeat split; lia.
  - specialize (IH (S nid)). destruct (body v) eqn:B.
    + destruct (spec it (S nid)) as [[[L N] C] nid']. destruct IH as (A1 & A2 & A3 & A4 & A5).
      cbn [map fst snd length seq existsb]. rewrite B, A1, A2. cbn [orb]. repeat split; try assumption.
      * destruct C; lia.
      * lia.
    + cbn. rewrite B. repeat split; lia.
    + destruct (spec it (S nid)) as [[[L N] C] nid']. destruct IH as (A1 & A2 & A3 & A4 & A5).
      cbn [map fst snd length seq existsb]. rewrite B, A1, A2. cbn [orb]. repeat split; try assumption.
      * destruct C; lia.
      * lia.
Qed.

(* every execution of the body has an environment of its own *)
Corollary spec_environments_distinct it nid :
  let '(L, _, _, _) := spec it nid in NoDup (map fst L).
Proof.
  pose proof (spec_log it nid) as H. destruct (spec it nid) as [[[L N] C] nid'].
  destruct H as (_ & A2 & _). rewrite A2. apply seq_NoDup.
Qed.

End Proofs.

(* The compilation before the repair binds the variable in the one scope around the loop: two
   executions of the body share an environment, and the closure of the first sees the value of the last. *)
Lemma old_compilation_refuted :
  exists (it : list nat),
    match run_halt nat 0 (fun _ => Normal) 0 (cforof_old 0) 100 (mk nat 0 it (RNone nat) 0 [(7, None)] 8 0 [] 0 false) with
    | Some s => ~ NoDup (map fst (log nat s)) /\ frames nat s = [(7, Some 2)]
    | None => False
    end.
Proof.
  exists [1; 2]. vm_compute. split; [|reflexivity].
  intros N. inversion N as [|x l Hn _]. apply Hn. left. reflexivity.
Qed.
