From Coq Require Import List Arith Bool Lia.
From TsrunV Require Import Lang.Pratt.
Import ListNotations.

Section PrattProofs.
  Variable A O : Type.
  Variable prec : O -> nat.
  Variable right_assoc : O -> bool.
  (* operators of one precedence level associate the same way (else the grammar is ambiguous) *)
  Hypothesis level_assoc : forall o o', prec o = prec o' -> right_assoc o = right_assoc o'.

  Notation tree := (tree A O).
  Notation expr := (expr A O prec right_assoc).
  Notation loop := (loop A O prec right_assoc).
  Notation derives := (derives A O prec right_assoc).
  Notation next_prec := (next_prec O prec right_assoc).
  Notation first := (first A O).
  Notation others := (others A O).

  (* the parser stops in front of an operator that is too weak for the current level *)
  Definition stops (min : nat) (rest : list (O * A)) : Prop :=
    match rest with [] => True | (o, _) :: _ => prec o < min end.
  (* what is known about the left operand built so far *)
  Definition inv (min : nat) (lhs : tree) (rest : list (O * A)) : Prop :=
    derives min lhs /\
    match lhs with Leaf _ _ _ => True | Node _ _ o' _ _ => stops (next_prec o') rest end.

  Lemma expr_eq f min a rest : expr (S f) min a rest = loop f min (Leaf A O a) rest.
  Proof. reflexivity. Qed.
  Lemma loop_eq f min lhs rest :
    loop (S f) min lhs rest =
    match rest with
    | [] => Some (lhs, [])
    | (o, a) :: rest' =>
        if prec o <? min then Some (lhs, rest)
        else match expr f (next_prec o) a rest' with
             | None => None
             | Some (rhs, rest'') => loop f min (Node A O o lhs rhs) rest''
             end
    end.
  Proof. reflexivity. Qed.

  Lemma derives_weaken p q t : q <= p -> derives p t -> derives q t.
  Proof. destruct t as [a|o l r]; cbn [Pratt.derives]; intros Hq H; [exact I|]. destruct H as [H1 H2]. split; [lia|exact H2]. Qed.

  Lemma sound : forall fuel,
      (forall min a rest t rest', expr fuel min a rest = Some (t, rest') ->
         derives min t /\ stops min rest' /\ first t = a /\ others t ++ rest' = rest) /\
      (forall min lhs rest t rest', loop fuel min lhs rest = Some (t, rest') -> inv min lhs rest ->
         derives min t /\ stops min rest' /\ first t = first lhs /\ others t ++ rest' = others lhs ++ rest).
  Proof.
    induction fuel as [|f [IHe IHl]]; [split; intros; discriminate|]. split.
    - intros min a rest t rest' H. rewrite expr_eq in H.
      destruct (IHl min (Leaf A O a) rest t rest' H) as (D & S & F & Ot).
      { split; cbn; exact I. }
      cbn [Pratt.first Pratt.others app] in F, Ot. split; [exact D|]. split; [exact S|]. split; assumption.
    - intros min lhs rest t rest' H [Dl Sl]. rewrite loop_eq in H.
      destruct rest as [|[o a] rest1].
      + inversion H; subst. split; [exact Dl|]. split; [exact I|]. split; reflexivity.
      + destruct (prec o <? min) eqn:Ep.
        * inversion H; subst. apply Nat.ltb_lt in Ep. split; [exact Dl|]. split; [exact Ep|]. split; reflexivity.
        * apply Nat.ltb_ge in Ep.
          destruct (expr f (next_prec o) a rest1) as [[rhs rest2]|] eqn:Er; [|discriminate].
          destruct (IHe _ _ _ _ _ Er) as (Dr & Sr & Fr & Or).
          assert (Hinv : inv min (Node A O o lhs rhs) rest2).
          { split; [|exact Sr]. cbn [Pratt.derives]. split; [exact Ep|].
            (* the left operand built so far fits under o *)
            assert (Hl : forall q, (forall o' l' r', lhs = Node A O o' l' r' -> q <= prec o') -> derives q lhs).
            { intros q Hq. destruct lhs as [a0|o' l' r']; [exact I|]. cbn [Pratt.derives] in *.
              destruct Dl as [_ Dl2]. split; [apply (Hq o' l' r' eq_refl)|exact Dl2]. }
            unfold Pratt.next_prec in Dr.
            destruct (right_assoc o) eqn:Ro.
            - split; [|exact Dr]. apply Hl. intros o' l' r' ->. cbn [stops] in Sl. unfold Pratt.next_prec in Sl.
              destruct (right_assoc o') eqn:Ro'; [lia|].
              destruct (Nat.eq_dec (prec o) (prec o')) as [E|E]; [|lia].
              rewrite (level_assoc _ _ E) in Ro. congruence.
            - split; [|exact Dr]. apply Hl. intros o' l' r' ->. cbn [stops] in Sl. unfold Pratt.next_prec in Sl.
              destruct (right_assoc o'); lia. }
          destruct (IHl _ _ _ _ _ H Hinv) as (D & S & F & Ot).
          split; [exact D|]. split; [exact S|]. split; [exact F|].
          rewrite Ot. cbn [Pratt.others]. rewrite <- Or, Fr. rewrite <- !app_assoc. reflexivity.
  Qed.

  Lemma total : forall fuel,
      (forall min a rest, 2 * length rest + 2 <= fuel -> exists t rest', expr fuel min a rest = Some (t, rest') /\ length rest' <= length rest) /\
      (forall min lhs rest, 2 * length rest + 1 <= fuel -> exists t rest', loop fuel min lhs rest = Some (t, rest') /\ length rest' <= length rest).
  Proof.
    induction fuel as [|f [IHe IHl]]; [split; intros; lia|]. split.
    - intros min a rest Hf. rewrite expr_eq. apply IHl. lia.
    - intros min lhs rest Hf. rewrite loop_eq. destruct rest as [|[o a] rest1].
      + exists lhs, []. split; [reflexivity|lia].
      + destruct (prec o <? min).
        * exists lhs, ((o, a) :: rest1). split; [reflexivity|lia].
        * cbn [length] in Hf. destruct (IHe (next_prec o) a rest1) as (rhs & rest2 & Er & L2); [lia|].
          rewrite Er. destruct (IHl min (Node A O o lhs rhs) rest2) as (t & rest3 & El & L3); [lia|].
          exists t, rest3. split; [exact El|cbn [length]; lia].
  Qed.

  (* the whole expression *)
  Theorem parse_sound a rest t : parse A O prec right_assoc a rest = Some t ->
      derives 0 t /\ first t = a /\ others t = rest.
  Proof.
    unfold parse. destruct (expr (2 * length rest + 2) 0 a rest) as [[t0 [|x r]]|] eqn:E; try discriminate.
    intros H; inversion H; subst t0.
    destruct (proj1 (sound _) _ _ _ _ _ E) as (D & _ & F & Ot). rewrite app_nil_r in Ot. split; [exact D|]. split; assumption.
  Qed.
  Theorem parse_total a rest : exists t, parse A O prec right_assoc a rest = Some t.
  Proof.
    unfold parse. destruct (proj1 (total (2 * length rest + 2)) 0 a rest (le_n _)) as (t & rest' & E & L).
    rewrite E. destruct (proj1 (sound _) _ _ _ _ _ E) as (_ & S & _ & _).
    destruct rest' as [|[o x] r]; [exists t; reflexivity|]. cbn [stops] in S. lia.
  Qed.
End PrattProofs.
