(* C01, mechanism M4: array patterns over the iterator protocol.

   The model of what compile_array_pattern_binding / _assignment emit
   (src/compiler/compile_pattern.rs) for a pattern whose element positions are
   identifiers or holes, the machine those instructions run on, and the
   ECMAScript meaning of the pattern (IteratorBindingInitialization,
   13.15.5.5 / 8.6.3): positions take the iterator's values in order; from the
   position at which next() reports done every position is undefined, next() is
   not called again, and the iterator is closed exactly when it was not
   exhausted. The iterator carries a return value ([ret]) that IteratorValue
   WOULD read from the final result: the instructions must never bind it. *)
From Coq Require Import List Arith Bool Lia.
Import ListNotations.

Section ArrayPattern.
Variable V : Type.
Variable undef : V.   (* the value undefined *)
Variable ret : V.     (* 'value' of the result that reports done, e.g. a generator's return value *)

Inductive op :=
| OInit                  (* LoadBool { dst: done, value: false } *)
| OJumpIfDone (t : nat)  (* JumpIfTrue { cond: done, target } *)
| ONext                  (* IteratorNext { dst: result, iterator } *)
| OIterDone (t : nat)    (* IteratorDone { result, target } *)
| OValue                 (* IteratorValue { dst: elem, result } *)
| OJump (t : nat)        (* Jump { target } *)
| OSetDone               (* LoadBool { dst: done, value: true } *)
| OUndef                 (* LoadUndefined { dst: elem } *)
| OBind                  (* DeclareVar / SetVar from elem: the position's identifier *)
| OClose                 (* IteratorClose { iterator } *)
| ORest                  (* CreateRestArray { dst: rest, iterator }: drains the iterator *)
| OEmptyRest             (* CreateArray { dst: rest, count: 0 } *)
| OBindRest.             (* DeclareVar / SetVar from rest: the rest element's identifier *)

Inductive res := RNone | RVal (v : V) | RDone.

Record st := mk { pc : nat; iter : list V; result : res; elem : V; done : bool;
                  bound : list V; nexts : nat; closed : bool }.

Definition exec (o : op) (s : st) : st :=
  match s with mk p i r e d b n c =>
    match o with
    | OInit => mk (S p) i r e false b n c
    | OJumpIfDone t => mk (if d then t else S p) i r e d b n c
    | ONext => match i with
               | [] => mk (S p) [] RDone e d b (S n) c
               | v :: i' => mk (S p) i' (RVal v) e d b (S n) c
               end
    | OIterDone t => mk (match r with RDone => t | _ => S p end) i r e d b n c
    | OValue => mk (S p) i r (match r with RVal v => v | RDone => ret | RNone => undef end) d b n c
    | OJump t => mk t i r e d b n c
    | OSetDone => mk (S p) i r e true b n c
    | OUndef => mk (S p) i r undef d b n c
    | OBind => mk (S p) i r e d (b ++ [e]) n c
    | OClose => mk (S p) i r e d b n true
    (* the rest array is recorded as the values behind the positions' values: [bound] is the
       positions' values followed by the elements of the rest array; draining calls next() once
       per remaining value and once more to see the end *)
    | ORest => mk (S p) [] RDone e d (b ++ i) (S (length i + n)) c
    | OEmptyRest => mk (S p) i r e d b n c
    | OBindRest => mk (S p) i r e d b n c
    end
  end.

Fixpoint run (code : list op) (k : nat) (s : st) : option st :=
  match k with
  | 0 => Some s
  | S k' => match nth_error code (pc s) with
            | None => None
            | Some o => run code k' (exec o s)
            end
  end.

(* run to the end of the code (for evaluation; the theorems use [run]) *)
Fixpoint run_halt (code : list op) (fuel : nat) (s : st) : option st :=
  match fuel with
  | 0 => None
  | S f => match nth_error code (pc s) with
           | None => Some s
           | Some o => run_halt code f (exec o s)
           end
  end.

(* ---- what the compiler emits ---- *)

(* one element position at instruction index p; binding = identifier, else hole *)
Definition cstep (binding : bool) (p : nat) : list op :=
  if binding
  then [OJumpIfDone (6 + p); ONext; OIterDone (5 + p); OValue; OJump (7 + p); OSetDone; OUndef; OBind]
  else [OJumpIfDone (5 + p); ONext; OIterDone (4 + p); OJump (5 + p); OSetDone].

Fixpoint csteps (ks : list bool) (p : nat) : list op :=
  match ks with
  | [] => []
  | k :: ks' => cstep k p ++ csteps ks' (length (cstep k p) + p)
  end.

Definition cpattern (ks : list bool) (p : nat) : list op :=
  OInit :: csteps ks (1 + p) ++ [OJumpIfDone (2 + (length (csteps ks (1 + p)) + (1 + p))); OClose].

(* a pattern ending in a rest element: no close (the rest exhausts the iterator), and an iterator
   that already reported done is not asked again *)
Definition cpattern_rest (ks : list bool) (p : nat) : list op :=
  let base := length (csteps ks (1 + p)) + (1 + p) in
  OInit :: csteps ks (1 + p) ++ [OJumpIfDone (3 + base); ORest; OJump (4 + base); OEmptyRest; OBindRest].

(* the compilation before the repair: next, value, bind; close unconditionally *)
Definition cstep_old (binding : bool) : list op :=
  if binding then [ONext; OValue; OBind] else [ONext].
Definition cpattern_old (ks : list bool) : list op :=
  flat_map cstep_old ks ++ [OClose].

(* ---- what ECMAScript says ---- *)

Record abs := mka { a_iter : list V; a_done : bool; a_bound : list V; a_nexts : nat }.

Definition spec_step (binding : bool) (a : abs) : abs :=
  match a with mka i d b n =>
    let put v := if binding then b ++ [v] else b in
    if d then mka i true (put undef) n
    else match i with
         | [] => mka [] true (put undef) (S n)
         | v :: i' => mka i' false (put v) (S n)
         end
  end.

Definition spec_steps (ks : list bool) (a : abs) : abs := fold_left (fun a k => spec_step k a) ks a.

Definition spec (ks : list bool) (it : list V) : abs := spec_steps ks (mka it false [] 0).

(* the iterator is closed (return() is called) exactly when it was not exhausted *)
Definition spec_closed (ks : list bool) (it : list V) : bool := negb (a_done (spec ks it)).

(* with a rest element behind the positions: the rest takes what is left, unless the iterator
   already reported done (then it is empty and next() is not called again); never closed *)
Definition spec_rest (ks : list bool) (it : list V) : abs :=
  let a := spec ks it in
  if a_done a then a
  else mka [] true (a_bound a ++ a_iter a) (S (length (a_iter a) + a_nexts a)).

Definition abs_of (s : st) : abs := mka (iter s) (done s) (bound s) (nexts s).

(* indices of the identifier positions *)
Fixpoint positions (ks : list bool) (i : nat) : list nat :=
  match ks with
  | [] => []
  | k :: ks' => (if k then [i] else []) ++ positions ks' (S i)
  end.

End ArrayPattern.

