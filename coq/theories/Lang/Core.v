(* C01-M2: a core of the language (literals, variables, unary/binary/logical
   operators, conditionals, simple / compound / logical assignment, let/const,
   blocks, if, while, break, continue), its source semantics, the compilation scheme of
   src/compiler/compile_expr.rs + compile_stmt.rs for exactly these constructs
   (registers handed out by the stack discipline of RegisterAllocator::alloc /
   free, absolute jump targets as BytecodeBuilder::patch_jump computes them,
   PushScope/PopScope around blocks) and the instructions of
   BytecodeVM::execute_op they compile to. Generic in the values and in the
   meaning of the operators (Lang/Ops.v supplies those). No proofs here.

   The tie: `ccompile` is compared op for op with Compiler::compile_program on
   generated programs, `vm_run` with the result of running them (lib/c01core.py). *)
From Coq Require Import String ZArith Bool List Arith.
Import ListNotations.

Section Core.
  Variable V : Type.                      (* run-time values *)
  Variable bop uop : Type.                (* binary / unary operators *)
  Variable bsem : bop -> V -> V -> V.
  Variable usem : uop -> V -> V.
  Variable typeof_sem : V -> V.
  Variable truthy : V -> bool.
  Variable nullish : V -> bool.
  Variable vundef vnull : V.
  Variable vbool : bool -> V.
  Variable vint : Z -> V.
  Variable vstr : string -> V.

  Inductive lit := LUndef | LNull | LBool (b : bool) | LInt (z : Z) | LStr (s : string).
  Inductive lop := LAnd | LOr | LNullish.

  Inductive expr :=
  | ELit (l : lit)
  | EVar (x : string)
  | EBin (o : bop) (a b : expr)
  | EUn (o : uop) (a : expr)
  | ETypeof (a : expr)                    (* operand is not an identifier *)
  | ETypeofVar (x : string)               (* typeof x: no ReferenceError *)
  | ELog (o : lop) (a b : expr)
  | ECond (c a b : expr)
  | EAssign (x : string) (a : expr)
  | ECompound (o : bop) (x : string) (a : expr)
  | ELogAssign (o : lop) (x : string) (a : expr).

  Inductive stmt :=
  | SExpr (e : expr)
  | SDecl (mutable : bool) (x : string) (e : expr)     (* let / const with initialiser *)
  | SBlock (body : list stmt)
  | SIf (c : expr) (t : stmt) (e : option stmt)
  | SWhile (c : expr) (body : stmt)
  | SBreak | SContinue                                 (* unlabeled, of the innermost while *)
  | SEmpty.

  (* ------------------------------------------------------------------ *)
  (* environments: Interpreter::env_get / env_set / env_define / push_scope *)
  Definition binding := (string * (V * bool))%type.
  Definition scope := list binding.
  Definition env := list scope.            (* innermost scope first *)

  Fixpoint find_binding (x : string) (s : scope) : option (V * bool) :=
    match s with
    | [] => None
    | (y, b) :: r => if String.eqb x y then Some b else find_binding x r
    end.
  Fixpoint lookup (x : string) (en : env) : option V :=
    match en with
    | [] => None
    | s :: r => match find_binding x s with Some (v, _) => Some v | None => lookup x r end
    end.
  Fixpoint set_binding (x : string) (v : V) (s : scope) : scope :=
    match s with
    | [] => []
    | (y, (w, m)) :: r => if String.eqb x y then (y, (v, m)) :: r else (y, (w, m)) :: set_binding x v r
    end.
  Inductive err := ERef (x : string) | EConstAssign (x : string).
  Inductive aresult := AOk (en : env) | AErr (e : err).
  Fixpoint assign (x : string) (v : V) (en : env) : aresult :=
    match en with
    | [] => AErr (ERef x)
    | s :: r => match find_binding x s with
                | Some (_, true) => AOk (set_binding x v s :: r)
                | Some (_, false) => AErr (EConstAssign x)
                | None => match assign x v r with AOk r' => AOk (s :: r') | AErr e => AErr e end
                end
    end.
  Definition declare (x : string) (v : V) (m : bool) (en : env) : env :=
    match en with
    | s :: r => ((x, (v, m)) :: s) :: r
    | [] => [[(x, (v, m))]]
    end.
  Definition push (en : env) : env := [] :: en.
  Definition pop (en : env) : env := match en with _ :: r => r | [] => [] end.

  (* ------------------------------------------------------------------ *)
  (* source semantics (what the program means) *)
  Inductive res := Val (v : V) | Thrown (e : err).

  Definition lit_val (l : lit) : V :=
    match l with LUndef => vundef | LNull => vnull | LBool b => vbool b | LInt z => vint z | LStr s => vstr s end.
  Definition short_circuits (o : lop) (v : V) : bool :=
    match o with LAnd => negb (truthy v) | LOr => truthy v | LNullish => negb (nullish v) end.

  Fixpoint eval (e : expr) (en : env) : res * env :=
    match e with
    | ELit l => (Val (lit_val l), en)
    | EVar x => match lookup x en with Some v => (Val v, en) | None => (Thrown (ERef x), en) end
    | EBin o a b =>
        match eval a en with
        | (Val va, en1) => match eval b en1 with
                           | (Val vb, en2) => (Val (bsem o va vb), en2)
                           | r => r
                           end
        | r => r
        end
    | EUn o a => match eval a en with (Val va, en1) => (Val (usem o va), en1) | r => r end
    | ETypeof a => match eval a en with (Val va, en1) => (Val (typeof_sem va), en1) | r => r end
    | ETypeofVar x => (Val (typeof_sem (match lookup x en with Some v => v | None => vundef end)), en)
    | ELog o a b =>
        match eval a en with
        | (Val va, en1) => if short_circuits o va then (Val va, en1) else eval b en1
        | r => r
        end
    | ECond c a b =>
        match eval c en with
        | (Val vc, en1) => if truthy vc then eval a en1 else eval b en1
        | r => r
        end
    | EAssign x a =>
        match eval a en with
        | (Val va, en1) => match assign x va en1 with AOk en2 => (Val va, en2) | AErr er => (Thrown er, en1) end
        | r => r
        end
    | ECompound o x a =>
        match lookup x en with
        | None => (Thrown (ERef x), en)
        | Some cur =>
            match eval a en with
            | (Val va, en1) => let v := bsem o cur va in
                               match assign x v en1 with AOk en2 => (Val v, en2) | AErr er => (Thrown er, en1) end
            | r => r
            end
        end
    | ELogAssign o x a =>
        match lookup x en with
        | None => (Thrown (ERef x), en)
        | Some cur =>
            if short_circuits o cur then (Val cur, en)           (* no assignment takes place *)
            else match eval a en with
                 | (Val va, en1) => match assign x va en1 with AOk en2 => (Val va, en2) | AErr er => (Thrown er, en1) end
                 | r => r
                 end
        end
    end.

  (* statements: None = out of fuel. A statement completes normally, with break /
     continue (carrying the environment at that point), or with an error. *)
  Inductive sres := SNormal (en : env) | SBroke (en : env) | SContinued (en : env) | SThrown (e : err).

  Fixpoint exec (fuel : nat) (s : stmt) (en : env) {struct fuel} : option sres :=
    match fuel with
    | O => None
    | S f =>
        match s with
        | SEmpty => Some (SNormal en)
        | SBreak => Some (SBroke en)
        | SContinue => Some (SContinued en)
        | SExpr e => match eval e en with (Val _, en1) => Some (SNormal en1) | (Thrown er, _) => Some (SThrown er) end
        | SDecl m x e => match eval e en with
                         | (Val v, en1) => Some (SNormal (declare x v m en1))
                         | (Thrown er, _) => Some (SThrown er)
                         end
        | SBlock body =>
            (fix go (l : list stmt) (en0 : env) : option sres :=
               match l with
               | [] => Some (SNormal (pop en0))
               | s1 :: r => match exec f s1 en0 with
                            | Some (SNormal en1) => go r en1
                            | Some (SBroke en1) => Some (SBroke (pop en1))          (* leaving the block *)
                            | Some (SContinued en1) => Some (SContinued (pop en1))
                            | other => other
                            end
               end) body (push en)
        | SIf c t e =>
            match eval c en with
            | (Val vc, en1) => if truthy vc then exec f t en1
                               else match e with Some s2 => exec f s2 en1 | None => Some (SNormal en1) end
            | (Thrown er, _) => Some (SThrown er)
            end
        | SWhile c body =>
            match eval c en with
            | (Val vc, en1) => if truthy vc then
                                 match exec f body en1 with
                                 | Some (SNormal en2) | Some (SContinued en2) => exec f (SWhile c body) en2
                                 | Some (SBroke en2) => Some (SNormal en2)
                                 | other => other
                                 end
                               else Some (SNormal en1)
            | (Thrown er, _) => Some (SThrown er)
            end
        end
    end.

  (* top level: break / continue outside a loop are refused by the compiler; the
     semantics treats them as the end of the statement list *)
  Fixpoint exec_list (fuel : nat) (l : list stmt) (en : env) : option sres :=
    match l with
    | [] => Some (SNormal en)
    | s :: r => match exec fuel s en with
                | Some (SNormal en1) => exec_list fuel r en1
                | other => other
                end
    end.

  (* the value a program reports: its statements, then a final expression *)
  Inductive outcome := OValue (v : V) (en : env) | OError (e : err).
  Definition run_source (fuel : nat) (body : list stmt) (final : expr) : option outcome :=
    match exec_list fuel body [[]] with
    | None => None
    | Some (SThrown er) => Some (OError er)
    | Some (SBroke _) | Some (SContinued _) => None
    | Some (SNormal en) => match eval final en with
                           | (Val v, en1) => Some (OValue v en1)
                           | (Thrown er, _) => Some (OError er)
                           end
    end.

  (* ------------------------------------------------------------------ *)
  (* bytecode: the Op variants these constructs compile to *)
  Inductive op :=
  | OLoadUndef (d : nat) | OLoadNull (d : nat) | OLoadBool (d : nat) (b : bool)
  | OLoadInt (d : nat) (z : Z)             (* LoadInt, -128..127 *)
  | OLoadNum (d : nat) (z : Z)             (* LoadConst of a number constant *)
  | OLoadStr (d : nat) (s : string)        (* LoadConst of a string constant *)
  | OBin (o : bop) (d l r : nat) | OUn (o : uop) (d s : nat) | OTypeof (d s : nat)
  | OGetVar (d : nat) (x : string) | OTryGetVar (d : nat) (x : string)
  | OSetVar (x : string) (s : nat) | ODeclare (x : string) (s : nat) (mutable : bool)
  | OPushScope | OPopScope
  | OBreak (t scopes : nat) | OContinue (t scopes : nat)   (* try_depth is 0: no try statement in the core *)
  | OJump (t : nat) | OJumpIfTrue (c t : nat) | OJumpIfFalse (c t : nat) | OJumpIfNotNullish (c t : nat)
  | OHalt.

  Definition max_reg := 255.
  (* RegisterAllocator::alloc under the stack discipline (free list empty):
     the next register, refused at 255 *)
  Definition alloc (next : nat) : option nat := if next <? max_reg then Some next else None.

  Definition load_lit (l : lit) (d : nat) : op :=
    match l with
    | LUndef => OLoadUndef d | LNull => OLoadNull d | LBool b => OLoadBool d b
    | LInt z => if ((-128 <=? z) && (z <=? 127))%Z then OLoadInt d z else OLoadNum d z
    | LStr s => OLoadStr d s
    end.
  Definition skip_jump (o : lop) (c t : nat) : op :=
    match o with LAnd => OJumpIfFalse c t | LOr => OJumpIfTrue c t | LNullish => OJumpIfNotNullish c t end.

  (* compile_expression(e, dst) with `next` the allocator's next register and
     `pc` the offset of the first instruction emitted *)
  Fixpoint cexpr (e : expr) (dst next pc : nat) : option (list op) :=
    match e with
    | ELit l => Some [load_lit l dst]
    | EVar x => Some [OGetVar dst x]
    | EBin o a b =>
        match alloc next with None => None | Some l =>
        match cexpr a l (S next) pc with None => None | Some ca =>
        match alloc (S next) with None => None | Some r =>
        match cexpr b r (S (S next)) (pc + length ca) with None => None | Some cb =>
        Some (ca ++ cb ++ [OBin o dst l r])
        end end end end
    | EUn o a =>
        match alloc next with None => None | Some s =>
        match cexpr a s (S next) pc with None => None | Some ca => Some (ca ++ [OUn o dst s]) end end
    | ETypeof a =>
        match alloc next with None => None | Some s =>
        match cexpr a s (S next) pc with None => None | Some ca => Some (ca ++ [OTypeof dst s]) end end
    | ETypeofVar x =>
        match alloc next with None => None | Some s => Some [OTryGetVar s x; OTypeof dst s] end
    | ELog o a b =>
        match cexpr a dst next pc with None => None | Some ca =>
        match cexpr b dst next (pc + length ca + 1) with None => None | Some cb =>
        Some (ca ++ [skip_jump o dst (pc + length ca + 1 + length cb)] ++ cb)
        end end
    | ECond c a b =>
        match alloc next with None => None | Some t =>
        match cexpr c t (S next) pc with None => None | Some cc =>
        match cexpr a dst next (pc + length cc + 1) with None => None | Some ca =>
        match cexpr b dst next (pc + length cc + 1 + length ca + 1) with None => None | Some cb =>
        Some (cc ++ [OJumpIfFalse t (pc + length cc + 1 + length ca + 1)] ++ ca
                 ++ [OJump (pc + length cc + 1 + length ca + 1 + length cb)] ++ cb)
        end end end end
    | EAssign x a =>
        match cexpr a dst next pc with None => None | Some ca => Some (ca ++ [OSetVar x dst]) end
    | ECompound o x a =>
        match alloc next with None => None | Some r =>
        match cexpr a r (S next) (pc + 1) with None => None | Some ca =>
        Some ([OGetVar dst x] ++ ca ++ [OBin o dst dst r; OSetVar x dst])
        end end
    | ELogAssign o x a =>
        match cexpr a dst next (pc + 2) with None => None | Some ca =>
        Some ([OGetVar dst x; skip_jump o dst (pc + 2 + length ca + 1)] ++ ca ++ [OSetVar x dst])
        end
    end.

  (* the number of instructions an expression / a statement compiles to: jump
     targets beyond the construct being compiled (the end of a loop, for break)
     are computed from it, as patch_jump does after the fact *)
  Fixpoint esize (e : expr) : nat :=
    match e with
    | ELit _ | EVar _ => 1
    | EBin _ a b => esize a + esize b + 1
    | EUn _ a | ETypeof a => esize a + 1
    | ETypeofVar _ => 2
    | ELog _ a b => esize a + 1 + esize b
    | ECond c a b => esize c + 1 + esize a + 1 + esize b
    | EAssign _ a => esize a + 1
    | ECompound _ _ a => 1 + esize a + 2
    | ELogAssign _ _ a => 2 + esize a + 1
    end.
  Fixpoint ssize (s : stmt) : nat :=
    match s with
    | SEmpty => 0
    | SBreak | SContinue => 1
    | SExpr e => esize e
    | SDecl _ _ e => esize e + 1
    | SBlock body => 1 + (fix go (l : list stmt) : nat := match l with [] => 0 | s1 :: r => ssize s1 + go r end) body + 1
    | SIf c t None => esize c + 1 + ssize t
    | SIf c t (Some e) => esize c + 1 + ssize t + 1 + ssize e
    | SWhile c body => esize c + 1 + ssize body + 1
    end.

  (* the innermost loop: where continue and break go, and how many block scopes
     have been opened since the loop statement (LoopContext + Compiler.scope_depth) *)
  Record loopctx := { lc_continue : nat; lc_break : nat; lc_scopes : nat }.
  Definition deeper (lc : option loopctx) : option loopctx :=
    match lc with
    | Some c => Some {| lc_continue := lc_continue c; lc_break := lc_break c; lc_scopes := S (lc_scopes c) |}
    | None => None
    end.

  (* compile_statement_impl; statements hold no register across each other *)
  Fixpoint cstmt (s : stmt) (lc : option loopctx) (next pc : nat) {struct s} : option (list op) :=
    match s with
    | SEmpty => Some []
    | SBreak => match lc with Some c => Some [OBreak (lc_break c) (lc_scopes c)] | None => None end
    | SContinue => match lc with Some c => Some [OContinue (lc_continue c) (lc_scopes c)] | None => None end
    | SExpr e => match alloc next with None => None | Some d => cexpr e d (S next) pc end
    | SDecl m x e =>
        match alloc next with None => None | Some d =>
        match cexpr e d (S next) pc with None => None | Some ce => Some (ce ++ [ODeclare x d m]) end end
    | SBlock body =>
        match (fix go (l : list stmt) (pc0 : nat) : option (list op) :=
                 match l with
                 | [] => Some []
                 | s1 :: r => match cstmt s1 (deeper lc) next pc0 with None => None | Some c1 =>
                              match go r (pc0 + length c1) with None => None | Some cr => Some (c1 ++ cr) end end
                 end) body (pc + 1) with
        | None => None
        | Some cb => Some ([OPushScope] ++ cb ++ [OPopScope])
        end
    | SIf c t e =>
        match alloc next with None => None | Some tr =>
        match cexpr c tr (S next) pc with None => None | Some cc =>
        match cstmt t lc next (pc + length cc + 1) with None => None | Some ct =>
        match e with
        | None => Some (cc ++ [OJumpIfFalse tr (pc + length cc + 1 + length ct)] ++ ct)
        | Some s2 =>
            match cstmt s2 lc next (pc + length cc + 1 + length ct + 1) with None => None | Some ce =>
            Some (cc ++ [OJumpIfFalse tr (pc + length cc + 1 + length ct + 1)] ++ ct
                     ++ [OJump (pc + length cc + 1 + length ct + 1 + length ce)] ++ ce)
            end
        end end end end
    | SWhile c body =>
        match alloc next with None => None | Some tr =>
        match cexpr c tr (S next) pc with None => None | Some cc =>
        let finish := pc + length cc + 1 + ssize body + 1 in
        match cstmt body (Some {| lc_continue := pc; lc_break := finish; lc_scopes := 0 |}) next (pc + length cc + 1) with
        | None => None
        | Some cb => Some (cc ++ [OJumpIfFalse tr finish] ++ cb ++ [OJump pc])
        end end end
    end.

  Fixpoint cstmts (l : list stmt) (next pc : nat) : option (list op) :=
    match l with
    | [] => Some []
    | s1 :: r => match cstmt s1 None next pc with None => None | Some c1 =>
                 match cstmts r next (pc + length c1) with None => None | Some cr => Some (c1 ++ cr) end end
    end.

  (* Compiler::compile_program: the hoisting prologue (no `var` in the core),
     the statements, the final expression statement, Halt *)
  Definition ccompile (body : list stmt) (final : expr) : option (list op) :=
    match cstmts body 0 1 with None => None | Some cb =>
    match cexpr final 0 1 (1 + length cb) with None => None | Some cf =>
    Some ([OLoadUndef 0] ++ cb ++ cf ++ [OHalt])
    end end.

  (* ------------------------------------------------------------------ *)
  (* the virtual machine on these instructions *)
  Definition regs := nat -> V.
  Definition upd (rs : regs) (d : nat) (v : V) : regs := fun r => if Nat.eqb r d then v else rs r.

  Record vm := { pc_of : nat; regs_of : regs; env_of : env }.
  Inductive vstep_res := VNext (m : vm) | VHalt (v : V) (en : env) | VError (e : err) | VStuck.

  Definition vstep (code : list op) (m : vm) : vstep_res :=
    let pc := pc_of m in let rs := regs_of m in let en := env_of m in
    let next rs' en' := VNext {| pc_of := S pc; regs_of := rs'; env_of := en' |} in
    let goto t := VNext {| pc_of := t; regs_of := rs; env_of := en |} in
    match nth_error code pc with
    | None => VStuck
    | Some i =>
        match i with
        | OLoadUndef d => next (upd rs d vundef) en
        | OLoadNull d => next (upd rs d vnull) en
        | OLoadBool d b => next (upd rs d (vbool b)) en
        | OLoadInt d z => next (upd rs d (vint z)) en
        | OLoadNum d z => next (upd rs d (vint z)) en
        | OLoadStr d s => next (upd rs d (vstr s)) en
        | OBin o d l r => next (upd rs d (bsem o (rs l) (rs r))) en
        | OUn o d s => next (upd rs d (usem o (rs s))) en
        | OTypeof d s => next (upd rs d (typeof_sem (rs s))) en
        | OGetVar d x => match lookup x en with Some v => next (upd rs d v) en | None => VError (ERef x) end
        | OTryGetVar d x => next (upd rs d (match lookup x en with Some v => v | None => vundef end)) en
        | OSetVar x s => match assign x (rs s) en with AOk en' => next rs en' | AErr e => VError e end
        | ODeclare x s m => next rs (declare x (rs s) m en)
        | OPushScope => next rs (push en)
        | OPopScope => next rs (pop en)
        | OBreak t k | OContinue t k => VNext {| pc_of := t; regs_of := rs; env_of := Nat.iter k pop en |}
        | OJump t => goto t
        | OJumpIfTrue c t => if truthy (rs c) then goto t else next rs en
        | OJumpIfFalse c t => if truthy (rs c) then next rs en else goto t
        | OJumpIfNotNullish c t => if nullish (rs c) then next rs en else goto t
        | OHalt => VHalt (rs 0) en
        end
    end.

  Fixpoint vm_run (fuel : nat) (code : list op) (m : vm) : option outcome :=
    match fuel with
    | O => None
    | S f => match vstep code m with
             | VNext m' => vm_run f code m'
             | VHalt v en => Some (OValue v en)
             | VError e => Some (OError e)
             | VStuck => None
             end
    end.

  Definition vm_init : vm := {| pc_of := 0; regs_of := fun _ => vundef; env_of := [[]] |}.
End Core.
