From Coq Require Import List Arith Bool Lia.
Import ListNotations.
From TsrunV Require Import Lang.ArrayPattern.

Section Proofs.
Variable V : Type.
Variable undef ret : V.

Notation st := (st V).
Notation run := (run V undef ret).
Notation exec := (exec V undef ret).
Notation spec_step := (spec_step V undef).
Notation spec_steps := (spec_steps V undef).
Notation spec := (spec V undef).
Notation abs_of := (abs_of V).

(* [seg] sits in [code] at instruction index [p] *)
Definition code_at (code : list op) (p : nat) (seg : list op) : Prop :=
  forall j o, nth_error seg j = Some o -> nth_error code (j + p) = Some o.

Lemma code_at_app code p a b :
  code_at code p (a ++ b) -> code_at code p a /\ code_at code (length a + p) b.
Proof.
  intros H; split; intros j o Hj.
  - apply H. rewrite nth_error_app1; [exact Hj|]. apply nth_error_Some. congruence.
  - replace (j + (length a + p)) with ((length a + j) + p) by lia.
    apply H. rewrite nth_error_app2 by lia.
    replace (length a + j - length a) with j by lia. exact Hj.
Qed.

Lemma code_at_cons code p o seg :
  code_at code p (o :: seg) -> nth_error code p = Some o /\ code_at code (1 + p) seg.
Proof.
  intros H; split.
  - apply (H 0 o eq_refl).
  - intros j o' Hj. replace (j + (1 + p)) with (S j + p) by lia. apply H. exact Hj.
Qed.

Lemma run_add code a b s :
  run code (a + b) s = match run code a s with Some s' => run code b s' | None => None end.
Proof.
  revert s; induction a as [|a IH]; intros s; cbn [run Nat.add]; [reflexivity|].
  destruct (nth_error code (pc V s)); [apply IH|reflexivity].
Qed.

Ltac fetch H j :=
  let E := fresh "E" in pose proof (H j _ eq_refl) as E; cbn [Nat.add] in E; rewrite E; clear E.

(* one element position: the instructions do what ECMAScript says, and end right behind themselves *)
Lemma cstep_correct code binding p i r e d b n c :
  code_at code p (cstep binding p) ->
  exists k r' e',
    run code k (mk V p i r e d b n c) =
    Some (let a := spec_step binding (mka V i d b n) in
          mk V (length (cstep binding p) + p) (a_iter V a) r' e' (a_done V a) (a_bound V a) (a_nexts V a) c).
Proof.
  intros H. destruct binding; cbn [cstep] in H.
  - destruct d.
    + exists 3, r, undef. cbn [run pc]. fetch H 0. cbn [exec pc]. fetch H 6. cbn [exec pc]. fetch H 7.
      cbn [exec pc]. reflexivity.
    + destruct i as [|v i'].
      * exists 6, (RDone V), undef. cbn [run pc]. fetch H 0. cbn [exec pc]. fetch H 1. cbn [exec pc].
        fetch H 2. cbn [exec pc]. fetch H 5. cbn [exec pc]. fetch H 6. cbn [exec pc]. fetch H 7.
        cbn [exec pc]. reflexivity.
      * exists 6, (RVal V v), v. cbn [run pc]. fetch H 0. cbn [exec pc]. fetch H 1. cbn [exec pc].
        fetch H 2. cbn [exec pc]. fetch H 3. cbn [exec pc]. fetch H 4. cbn [exec pc]. fetch H 7.
        cbn [exec pc]. reflexivity.
  - destruct d.
    + exists 1, r, e. cbn [run pc]. fetch H 0. cbn [exec pc]. reflexivity.
    + destruct i as [|v i'].
      * exists 4, (RDone V), e. cbn [run pc]. fetch H 0. cbn [exec pc]. fetch H 1. cbn [exec pc].
        fetch H 2. cbn [exec pc]. fetch H 4. cbn [exec pc]. reflexivity.
      * exists 4, (RVal V v), e. cbn [run pc]. fetch H 0. cbn [exec pc]. fetch H 1. cbn [exec pc].
        fetch H 2. cbn [exec pc]. fetch H 3. cbn [exec pc]. reflexivity.
Qed.

Lemma spec_steps_cons k ks a : spec_steps (k :: ks) a = spec_steps ks (spec_step k a).
Proof. reflexivity. Qed.

Lemma csteps_correct code ks : forall p i r e d b n c,
  code_at code p (csteps ks p) ->
  exists k r' e',
    run code k (mk V p i r e d b n c) =
    Some (let a := spec_steps ks (mka V i d b n) in
          mk V (length (csteps ks p) + p) (a_iter V a) r' e' (a_done V a) (a_bound V a) (a_nexts V a) c).
Proof.
  induction ks as [|k ks IH]; intros p i r e d b n c H.
  - exists 0, r, e. reflexivity.
  - cbn [csteps] in H. apply code_at_app in H. destruct H as [H1 H2].
    destruct (cstep_correct code k p i r e d b n c H1) as (k1 & r1 & e1 & E1).
    cbn zeta in E1.
    remember (spec_step k (mka V i d b n)) as a1 eqn:Ea1. destruct a1 as [i1 d1 b1 n1].
    cbn [a_iter a_done a_bound a_nexts] in E1.
    destruct (IH _ i1 r1 e1 d1 b1 n1 c H2) as (k2 & r2 & e2 & E2).
    exists (k1 + k2), r2, e2. rewrite run_add, E1, E2.
    cbn [csteps]. rewrite app_length.
    rewrite spec_steps_cons, <- Ea1.
    f_equal. f_equal. lia.
Qed.

(* the whole pattern *)
Theorem cpattern_correct code ks p it r e d :
  code_at code p (cpattern ks p) ->
  exists k r' e' d',
    run code k (mk V p it r e d [] 0 false) =
    Some (mk V (length (cpattern ks p) + p) (a_iter V (spec ks it)) r' e' d'
             (a_bound V (spec ks it)) (a_nexts V (spec ks it)) (spec_closed V undef ks it))
    /\ d' = a_done V (spec ks it).
Proof.
  intros H. unfold cpattern in H. change (1 + p) with (S p) in H.
  apply code_at_cons in H. destruct H as [H0 H]. change (1 + p) with (S p) in H.
  apply code_at_app in H. destruct H as [H1 H2].
  destruct (csteps_correct code ks (S p) it r e false [] 0 false H1) as (k1 & r1 & e1 & E1).
  cbn zeta in E1. fold (spec ks it) in E1.
  apply code_at_cons in H2. destruct H2 as [H2 H3].
  apply code_at_cons in H3. destruct H3 as [H3 _].
  unfold spec_closed.
  remember (spec ks it) as a eqn:Ea. destruct a as [i1 d1 b1 n1].
  cbn [a_iter a_done a_bound a_nexts] in *.
  assert (L : length (cpattern ks p) + p = 2 + (length (csteps ks (S p)) + S p)).
  { unfold cpattern. change (1 + p) with (S p). cbn [length]. rewrite app_length. cbn [length]. lia. }
  destruct d1.
  - exists (1 + (k1 + 1)), r1, e1, true. split; [|reflexivity].
    cbn [run Nat.add pc]. rewrite H0. cbn [exec]. rewrite run_add, E1.
    cbn [run pc]. rewrite H2. cbn [exec negb]. rewrite L. reflexivity.
  - exists (1 + (k1 + 2)), r1, e1, false. split; [|reflexivity].
    cbn [run Nat.add pc]. rewrite H0. cbn [exec]. rewrite run_add, E1.
    cbn [run pc]. rewrite H2. cbn [exec pc].
    change (S (length (csteps ks (S p)) + S p)) with (1 + (length (csteps ks (S p)) + S p)).
    rewrite H3. cbn [exec negb]. rewrite L. reflexivity.
Qed.

(* a pattern that ends in a rest element *)
Theorem cpattern_rest_correct code ks p it r e d :
  code_at code p (cpattern_rest ks p) ->
  exists k r' e' d',
    run code k (mk V p it r e d [] 0 false) =
    Some (mk V (length (cpattern_rest ks p) + p) (a_iter V (spec_rest V undef ks it)) r' e' d'
             (a_bound V (spec_rest V undef ks it)) (a_nexts V (spec_rest V undef ks it)) false).
Proof.
  intros H. unfold cpattern_rest in H. cbn zeta in H. change (1 + p) with (S p) in H.
  apply code_at_cons in H. destruct H as [H0 H]. change (1 + p) with (S p) in H.
  apply code_at_app in H. destruct H as [H1 H2].
  destruct (csteps_correct code ks (S p) it r e false [] 0 false H1) as (k1 & r1 & e1 & E1).
  cbn zeta in E1. fold (spec ks it) in E1.
  set (base := length (csteps ks (S p)) + S p) in *.
  unfold spec_rest.
  remember (spec ks it) as a eqn:Ea. destruct a as [i1 d1 b1 n1].
  cbn [a_iter a_done a_bound a_nexts] in *.
  assert (L : length (cpattern_rest ks p) + p = 5 + base).
  { unfold cpattern_rest. cbn zeta. change (1 + p) with (S p). cbn [length]. rewrite app_length. cbn [length]. subst base. lia. }
  destruct d1.
  - (* already done: jump to the empty array, bind it *)
    exists (1 + (k1 + 3)), r1, e1, true.
    cbn [run Nat.add pc]. rewrite H0. cbn [exec]. rewrite run_add, E1.
    cbn [run pc]. fetch H2 0. cbn [exec pc]. fetch H2 3. cbn [exec pc]. fetch H2 4. cbn [exec pc].
    cbn [a_iter a_done a_bound a_nexts]. rewrite L. reflexivity.
  - (* drain the rest, jump over the empty array, bind *)
    exists (1 + (k1 + 4)), (RDone V), e1, false.
    cbn [run Nat.add pc]. rewrite H0. cbn [exec]. rewrite run_add, E1.
    cbn [run pc]. fetch H2 0. cbn [exec pc]. fetch H2 1. cbn [exec pc]. fetch H2 2. cbn [exec pc].
    fetch H2 4. cbn [exec pc]. cbn [a_iter a_done a_bound a_nexts]. rewrite L. reflexivity.
Qed.

(* ---- the meaning in closed form ---- *)

Lemma spec_steps_done ks : forall i b n,
  spec_steps ks (mka V i true b n) =
  mka V i true (b ++ map (fun _ => undef) (positions ks 0)) n.
Proof.
  assert (G : forall ks j i b n, spec_steps ks (mka V i true b n) =
                                  mka V i true (b ++ map (fun _ => undef) (positions ks j)) n).
  { clear ks. induction ks as [|k ks IH]; intros j i b n.
    - cbn. rewrite app_nil_r. reflexivity.
    - rewrite spec_steps_cons. cbn [spec_step positions].
      destruct k; rewrite (IH (S j)); cbn [app map]; [rewrite <- app_assoc|]; reflexivity. }
  intros; apply G.
Qed.

Lemma map_const_positions (f g : nat -> V) ks : forall j,
  (forall x, j <= x -> f x = g x) -> map f (positions ks j) = map g (positions ks j).
Proof.
  induction ks as [|k ks IH]; intros j H; [reflexivity|].
  cbn [positions]. rewrite !map_app. f_equal.
  - destruct k; cbn; [rewrite H by lia|]; reflexivity.
  - apply IH. intros x Hx. apply H. lia.
Qed.

(* every identifier position i receives the i-th value of the iterator, or undefined beyond its end;
   never the value of the result that reported done *)
Lemma spec_steps_bound ks : forall j it b n,
  a_bound V (spec_steps ks (mka V it false b n)) =
  b ++ map (fun x => nth (x - j) it undef) (positions ks j).
Proof.
  induction ks as [|k ks IH]; intros j it b n.
  - cbn. rewrite app_nil_r. reflexivity.
  - rewrite spec_steps_cons. cbn [spec_step].
    destruct it as [|v it'].
    + rewrite spec_steps_done. cbn [a_bound positions].
      rewrite map_app.
      assert (T : forall l, map (fun x => nth (x - j) (@nil V) undef) l = map (fun _ => undef) l).
      { intros l. apply map_ext. intros x. destruct (x - j); reflexivity. }
      rewrite !T.
      assert (P : map (fun _ : nat => undef) (positions ks 0) = map (fun _ : nat => undef) (positions ks (S j))).
      { clear. generalize 0 (S j). induction ks as [|k ks IH]; intros a c; [reflexivity|].
        cbn [positions]. rewrite !map_app. f_equal; [destruct k; reflexivity|apply IH]. }
      rewrite P. destruct k; cbn [app map]; [rewrite <- app_assoc|]; reflexivity.
    + rewrite (IH (S j)). cbn [positions]. rewrite map_app.
      assert (Q : map (fun x => nth (x - S j) it' undef) (positions ks (S j)) =
                  map (fun x => nth (x - j) (v :: it') undef) (positions ks (S j))).
      { apply map_const_positions. intros x Hx. replace (x - j) with (S (x - S j)) by lia. reflexivity. }
      rewrite Q. destruct k; cbn [app map].
      * rewrite Nat.sub_diag. cbn [nth]. rewrite <- app_assoc. reflexivity.
      * reflexivity.
Qed.

Lemma spec_steps_nexts_done ks : forall it b n,
  let a := spec_steps ks (mka V it false b n) in
  a_nexts V a = n + Nat.min (length ks) (S (length it)) /\
  a_done V a = (length it <? length ks).
Proof.
  induction ks as [|k ks IH]; intros it b n.
  - cbn. split; [lia|]. destruct (length it); reflexivity.
  - rewrite spec_steps_cons. cbn [spec_step].
    destruct it as [|v it'].
    + rewrite spec_steps_done. cbn [a_nexts a_done length]. split; [lia|reflexivity].
    + destruct (IH it' (if k then b ++ [v] else b) (S n)) as [N D]. cbn zeta in N, D.
      cbn [length]. split.
      * rewrite N. cbn [Nat.min]. lia.
      * rewrite D. reflexivity.
Qed.

Theorem spec_closed_form ks it :
  a_bound V (spec ks it) = map (fun x => nth x it undef) (positions ks 0) /\
  a_nexts V (spec ks it) = Nat.min (length ks) (S (length it)) /\
  a_done V (spec ks it) = (length it <? length ks) /\
  spec_closed V undef ks it = (length ks <=? length it).
Proof.
  unfold spec_closed, spec.
  pose proof (spec_steps_bound ks 0 it [] 0) as B.
  pose proof (spec_steps_nexts_done ks it [] 0) as [N D]. cbn zeta in N, D.
  repeat split.
  - rewrite B. cbn [app]. apply map_ext. intros x. rewrite Nat.sub_0_r. reflexivity.
  - rewrite N. reflexivity.
  - exact D.
  - rewrite D. destruct (Nat.ltb_spec (length it) (length ks)); destruct (Nat.leb_spec (length ks) (length it)); try reflexivity; lia.
Qed.


(* With a rest element: the positions as before, the rest is what lies beyond them; next() is
   called once per value and once more, whatever the number of positions; never closed. *)
Theorem spec_rest_closed_form ks it :
  a_bound V (spec_rest V undef ks it) = map (fun x => nth x it undef) (positions ks 0) ++ skipn (length ks) it /\
  a_nexts V (spec_rest V undef ks it) = S (length it) /\
  a_done V (spec_rest V undef ks it) = true.
Proof.
  unfold spec_rest.
  destruct (spec_closed_form ks it) as (B & N & D & _).
  assert (R : forall ks it b n, a_done V (spec_steps ks (mka V it false b n)) = false ->
                                 a_iter V (spec_steps ks (mka V it false b n)) = skipn (length ks) it).
  { clear. induction ks as [|k ks IH]; intros it b n Hd; [reflexivity|].
    rewrite spec_steps_cons in *. cbn [spec_step] in *. destruct it as [|v it'].
    - rewrite spec_steps_done in Hd. discriminate Hd.
    - cbn [length skipn]. apply IH. exact Hd. }
  rewrite D. destruct (Nat.ltb_spec (length it) (length ks)) as [Lt|Ge].
  - rewrite skipn_all2 by lia. rewrite app_nil_r. repeat split; [exact B| |exact D].
    rewrite N. lia.
  - cbn [a_bound a_nexts a_done a_iter].
    unfold spec in *. rewrite (R ks it [] 0 D).
    rewrite B, N. repeat split. rewrite skipn_length. lia.
Qed.

End Proofs.

(* the hypothesis of the theorems is what "the pattern's code sits at p" means *)
Lemma code_at_embedded (pre seg post : list op) : code_at (pre ++ seg ++ post) (length pre) seg.
Proof.
  intros j o Hj. rewrite nth_error_app2 by lia.
  replace (j + length pre - length pre) with j by lia.
  rewrite nth_error_app1; [exact Hj|]. apply nth_error_Some. congruence.
Qed.

(* The compilation before the repair (next; value; bind per position, close at the end) does not
   have this meaning: a generator returning 2 after one value binds 2 at the second position and
   is closed although it finished. *)
Lemma old_compilation_refuted :
  exists (ks : list bool) (it : list nat),
    let s0 := mk nat 0 it (RNone nat) 0 false [] 0 false in
    match run_halt nat 0 2 (cpattern_old ks) 100 s0 with
    | Some s => bound nat s <> a_bound nat (spec nat 0 ks it) /\ closed nat s <> spec_closed nat 0 ks it
    | None => False
    end.
Proof.
  exists [true; true], [7]. vm_compute. split; intros E; discriminate E.
Qed.
