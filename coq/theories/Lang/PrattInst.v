(* The precedence loop instantiated with the operator tokens of the parser; the
   precedences are read from the table regenerated from Parser::current_binary_op
   on every run (Generated/FactsC01.binop_table, rows "Token Operator precedence").
   No proofs here. *)
From Coq Require Import String Ascii List Arith Bool.
From TsrunV Require Import Generated.FactsC01.
From TsrunV Require Import Lang.Pratt.
Import ListNotations.
Local Open Scope string_scope.

Inductive optok := TPipePipe | TAmpAmp | TQuestionQuestion | TPipe | TCaret | TAmp | TEqEq | TBangEq | TEqEqEq | TBangEqEq
                 | TLt | TLtEq | TGt | TGtEq | TLtLt | TGtGt | TGtGtGt | TPlus | TMinus | TStar | TSlash | TPercent | TStarStar.
Definition all_optoks : list optok :=
  [TPipePipe; TAmpAmp; TQuestionQuestion; TPipe; TCaret; TAmp; TEqEq; TBangEq; TEqEqEq; TBangEqEq; TLt; TLtEq; TGt; TGtEq;
   TLtLt; TGtGt; TGtGtGt; TPlus; TMinus; TStar; TSlash; TPercent; TStarStar].

Definition tok_name (t : optok) : string :=
  match t with
  | TPipePipe => "PipePipe" | TAmpAmp => "AmpAmp" | TQuestionQuestion => "QuestionQuestion" | TPipe => "Pipe" | TCaret => "Caret"
  | TAmp => "Amp" | TEqEq => "EqEq" | TBangEq => "BangEq" | TEqEqEq => "EqEqEq" | TBangEqEq => "BangEqEq" | TLt => "Lt"
  | TLtEq => "LtEq" | TGt => "Gt" | TGtEq => "GtEq" | TLtLt => "LtLt" | TGtGt => "GtGt" | TGtGtGt => "GtGtGt" | TPlus => "Plus"
  | TMinus => "Minus" | TStar => "Star" | TSlash => "Slash" | TPercent => "Percent" | TStarStar => "StarStar"
  end.

(* ---- reading the regenerated rows ---- *)
Fixpoint words_aux (s : string) (cur : string) : list string :=
  match s with
  | EmptyString => [cur]
  | String c r => if Ascii.eqb c " "%char then cur :: words_aux r "" else words_aux r (cur ++ String c "")
  end.
Definition words (s : string) : list string := words_aux s "".
Fixpoint nat_of_digits (s : string) (acc : nat) : nat :=
  match s with
  | EmptyString => acc
  | String c r => nat_of_digits r (10 * acc + (nat_of_ascii c - 48))
  end.
Fixpoint row_prec (name : string) (rows : list string) : option nat :=
  match rows with
  | [] => None
  | row :: rest => match words row with
                   | [t; _; p] => if String.eqb t name then Some (nat_of_digits p 0) else row_prec name rest
                   | _ => row_prec name rest
                   end
  end.

(* the precedence the parser gives a token now; 0 if the token has left the table *)
Definition tok_prec (t : optok) : nat := match row_prec (tok_name t) binop_table with Some p => p | None => 0 end.
(* next_prec = prec for Exp only (parse_binary_expression_unguarded) *)
Definition tok_right_assoc (t : optok) : bool := match t with TStarStar => true | _ => false end.

(* ECMA-262 13.6 - 13.13: levels of the binary operator productions, loosest first.
   `??` may not be mixed with `||` / `&&` without parentheses; tsrun puts it on the level of `||`. *)
Definition es_level (t : optok) : nat :=
  match t with
  | TPipePipe | TQuestionQuestion => 1
  | TAmpAmp => 2 | TPipe => 3 | TCaret => 4 | TAmp => 5
  | TEqEq | TBangEq | TEqEqEq | TBangEqEq => 6
  | TLt | TLtEq | TGt | TGtEq => 7
  | TLtLt | TGtGt | TGtGtGt => 8
  | TPlus | TMinus => 9
  | TStar | TSlash | TPercent => 10
  | TStarStar => 11
  end.

Definition table_agrees_with_ecmascript : bool :=
  forallb (fun a => forallb (fun b => Bool.eqb (Nat.ltb (tok_prec a) (tok_prec b)) (Nat.ltb (es_level a) (es_level b))) all_optoks) all_optoks
  && forallb (fun a => Nat.ltb 0 (tok_prec a)) all_optoks.

Definition parse_chain (A : Type) := parse A optok tok_prec tok_right_assoc.
