(* Executable instance of the core over Coq's primitive doubles, used by the
   correspondence check: the model compiler's instruction list is rendered in
   the Debug format of tsrun's Op (constant indices replaced by the constants
   they denote), and the model machine runs the compiled code. Programs of the
   generator use no string <-> number conversion, remainder or exponentiation,
   so the tables of OpsExec stay empty. *)
From Coq Require Import String ZArith Bool List Floats.
From TsrunV Require Import Lang.Ops Lang.OpsExec Lang.Core Lang.CoreInst Lang.Pratt Lang.PrattInst Base.Render.
Import ListNotations.
Local Open Scope string_scope.

Definition XP := prim float.
Definition x_b : binop -> XP -> XP -> XP := run_bin [] [] [] [] [].
Definition x_u : unop -> XP -> XP := run_un [] .
Definition x_truthy (v : XP) : bool := to_boolean float PrimFloat.eqb 0%float PrimFloat.is_nan v.
Definition x_int (z : Z) : XP := PNum float (f_ofint z).

Definition x_expr := Core.expr binop unop.
Definition x_stmt := stmt binop unop.
Definition x_op := op binop unop.

Definition x_compile (body : list x_stmt) (final : x_expr) : option (list x_op) := ccompile binop unop body final.
Definition x_machine (fuel : nat) (code : list x_op) : option (outcome XP) :=
  vm_run XP binop unop x_b x_u (x_u Typeof) x_truthy (is_nullish float)
         (PUndef float) (PNull float) (PBool float) x_int (PStr float) fuel code (vm_init XP (PUndef float)).
Definition x_source (fuel : nat) (body : list x_stmt) (final : x_expr) : option (outcome XP) :=
  run_source XP binop unop x_b x_u (x_u Typeof) x_truthy (is_nullish float)
             (PUndef float) (PNull float) (PBool float) x_int (PStr float) fuel body final.

(* ---- unparenthesised operator chains: the tree is the one the precedence loop of Lang/Pratt.v builds ---- *)
Definition tok_node (t : optok) (l r : x_expr) : x_expr :=
  match t with
  | TPipePipe => ELog _ _ LOr l r | TAmpAmp => ELog _ _ LAnd l r | TQuestionQuestion => ELog _ _ LNullish l r
  | TPipe => EBin _ _ BitOr l r | TCaret => EBin _ _ BitXor l r | TAmp => EBin _ _ BitAnd l r
  | TEqEq => EBin _ _ Eq l r | TBangEq => EBin _ _ NotEq l r | TEqEqEq => EBin _ _ StrictEq l r | TBangEqEq => EBin _ _ StrictNotEq l r
  | TLt => EBin _ _ Lt l r | TLtEq => EBin _ _ LtEq l r | TGt => EBin _ _ Gt l r | TGtEq => EBin _ _ GtEq l r
  | TLtLt => EBin _ _ LShift l r | TGtGt => EBin _ _ RShift l r | TGtGtGt => EBin _ _ URShift l r
  | TPlus => EBin _ _ Add l r | TMinus => EBin _ _ Sub l r
  | TStar => EBin _ _ Mul l r | TSlash => EBin _ _ Div l r | TPercent => EBin _ _ Mod l r | TStarStar => EBin _ _ Exp l r
  end.
Fixpoint tree_expr (t : tree x_expr optok) : x_expr :=
  match t with Leaf _ _ a => a | Node _ _ o l r => tok_node o (tree_expr l) (tree_expr r) end.
Definition chain (a : x_expr) (rest : list (optok * x_expr)) : x_expr :=
  match parse_chain x_expr a rest with Some t => tree_expr t | None => a end.

(* ---- rendering ---- *)
Definition binop_name (o : binop) : string :=
  match o with
  | Add => "Add" | Sub => "Sub" | Mul => "Mul" | Div => "Div" | Mod => "Mod" | Exp => "Exp"
  | Eq => "Eq" | NotEq => "NotEq" | StrictEq => "StrictEq" | StrictNotEq => "StrictNotEq"
  | Lt => "Lt" | LtEq => "LtEq" | Gt => "Gt" | GtEq => "GtEq"
  | BitAnd => "BitAnd" | BitOr => "BitOr" | BitXor => "BitXor"
  | LShift => "LShift" | RShift => "RShift" | URShift => "URShift"
  | And | Or | Nullish => "?"
  end.
Definition unop_name (o : unop) : string :=
  match o with Neg => "Neg" | Plus => "Plus" | Not => "Not" | BitNot => "BitNot" | Typeof => "Typeof" | Void => "Void" end.
Definition rn (n : nat) : string := string_of_nat n.
Definition show_op (i : x_op) : string :=
  match i with
  | OLoadUndef _ _ d => "LoadUndefined { dst: " ++ rn d ++ " }"
  | OLoadNull _ _ d => "LoadNull { dst: " ++ rn d ++ " }"
  | OLoadBool _ _ d b => "LoadBool { dst: " ++ rn d ++ ", value: " ++ (if b then "true" else "false") ++ " }"
  | OLoadInt _ _ d z => "LoadInt { dst: " ++ rn d ++ ", value: " ++ string_of_Z z ++ " }"
  | OLoadNum _ _ d z => "LoadConst { dst: " ++ rn d ++ ", idx: N:" ++ string_of_Z z ++ ".0 }"
  | OLoadStr _ _ d s => "LoadConst { dst: " ++ rn d ++ ", idx: S:" ++ s ++ " }"
  | OBin _ _ o d l r => binop_name o ++ " { dst: " ++ rn d ++ ", left: " ++ rn l ++ ", right: " ++ rn r ++ " }"
  | OUn _ _ o d s => unop_name o ++ " { dst: " ++ rn d ++ ", src: " ++ rn s ++ " }"
  | OTypeof _ _ d s => "Typeof { dst: " ++ rn d ++ ", src: " ++ rn s ++ " }"
  | OGetVar _ _ d x => "GetVar { dst: " ++ rn d ++ ", name: " ++ x ++ " }"
  | OTryGetVar _ _ d x => "TryGetVar { dst: " ++ rn d ++ ", name: " ++ x ++ " }"
  | OSetVar _ _ x s => "SetVar { name: " ++ x ++ ", src: " ++ rn s ++ " }"
  | ODeclare _ _ x s m => "DeclareVar { name: " ++ x ++ ", init: " ++ rn s ++ ", mutable: " ++ (if m then "true" else "false") ++ " }"
  | OPushScope _ _ => "PushScope"
  | OPopScope _ _ => "PopScope"
  | OBreak _ _ t k => "Break { target: " ++ rn t ++ ", try_depth: 0, scopes: " ++ rn k ++ " }"
  | OContinue _ _ t k => "Continue { target: " ++ rn t ++ ", try_depth: 0, scopes: " ++ rn k ++ " }"
  | OJump _ _ t => "Jump { target: " ++ rn t ++ " }"
  | OJumpIfTrue _ _ c t => "JumpIfTrue { cond: " ++ rn c ++ ", target: " ++ rn t ++ " }"
  | OJumpIfFalse _ _ c t => "JumpIfFalse { cond: " ++ rn c ++ ", target: " ++ rn t ++ " }"
  | OJumpIfNotNullish _ _ c t => "JumpIfNotNullish { cond: " ++ rn c ++ ", target: " ++ rn t ++ " }"
  | OHalt _ _ => "Halt"
  end.
Definition show_code (c : option (list x_op)) : string :=
  match c with None => "refused" | Some l => String.concat ";" (map show_op l) end.

Definition show_err (e : err) : string :=
  match e with ERef x => "ReferenceError:" ++ x | EConstAssign x => "TypeError:const:" ++ x end.
Definition show_outcome (o : option (outcome XP)) : string :=
  match o with
  | None => "nofuel"
  | Some (OValue _ v _) => "value " ++ show v
  | Some (OError _ e) => "error " ++ show_err e
  end.

(* one case of the correspondence check: code, machine outcome, source outcome *)
Definition core_case (fuel : nat) (body : list x_stmt) (final : x_expr) : string :=
  let c := x_compile body final in
  show_code c ++ "|" ++
  (match c with Some code => show_outcome (x_machine fuel code) | None => "refused" end) ++ "|" ++
  show_outcome (x_source fuel body final).
