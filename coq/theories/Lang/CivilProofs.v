From Coq Require Import ZArith List Bool Lia.
From TsrunV Require Import Lang.Civil.
Import ListNotations.
Local Open Scope Z_scope.

Ltac Zify.zify_post_hook ::= Z.to_euclidean_division_equations.

(* ---- iteration ---- *)

Lemma all_below_iter n f :
  N.iter n (fun p : Z * bool => (fst p + 1, snd p && f (fst p))) (0, true) =
  (Z.of_N n, snd (N.iter n (fun p : Z * bool => (fst p + 1, snd p && f (fst p))) (0, true))).
Proof.
  induction n as [|n IH] using N.peano_ind; [reflexivity|].
  rewrite !N.iter_succ.
  set (it := N.iter n (fun p : Z * bool => (fst p + 1, snd p && f (fst p))) (0, true)) in *.
  destruct it as [a b]. cbn [fst snd] in *. inversion IH as [E]. f_equal. lia.
Qed.

Lemma all_below_spec n f : all_below n f = true -> forall i, 0 <= i < Z.of_N n -> f i = true.
Proof.
  unfold all_below. induction n as [|n IH] using N.peano_ind; intros H i Hi; [lia|].
  rewrite N.iter_succ in H. rewrite all_below_iter in H. cbn [fst snd] in H.
  apply andb_true_iff in H. destruct H as [H1 H2].
  destruct (Z.eq_dec i (Z.of_N n)) as [->|Hne]; [exact H2|].
  apply IH; [exact H1|lia].
Qed.

(* ---- Rust's truncating operators against floor division ---- *)

Lemma floor_quot_146097 z : floor_quot z 146097 = z / 146097.
Proof. unfold floor_quot. destruct (Z.geb_spec z 0); lia. Qed.

Lemma floor_quot_400 z : floor_quot z 400 = z / 400.
Proof. unfold floor_quot. destruct (Z.geb_spec z 0); lia. Qed.

Lemma weekday_is_WeekDay days : days_to_weekday days = WeekDay days.
Proof. unfold days_to_weekday, WeekDay. lia. Qed.

Lemma is_leap_year_InLeapYear y : is_leap_year y = InLeapYear y.
Proof.
  unfold is_leap_year, InLeapYear.
  assert (A : (Z.rem y 4 =? 0) = (y mod 4 =? 0)) by (destruct (Z.eqb_spec (Z.rem y 4) 0), (Z.eqb_spec (y mod 4) 0); try reflexivity; lia).
  assert (B : (Z.rem y 100 =? 0) = (y mod 100 =? 0)) by (destruct (Z.eqb_spec (Z.rem y 100) 0), (Z.eqb_spec (y mod 100) 0); try reflexivity; lia).
  assert (C : (Z.rem y 400 =? 0) = (y mod 400 =? 0)) by (destruct (Z.eqb_spec (Z.rem y 400) 0), (Z.eqb_spec (y mod 400) 0); try reflexivity; lia).
  rewrite A, B, C. destruct (y mod 4 =? 0), (y mod 100 =? 0), (y mod 400 =? 0); reflexivity.
Qed.

(* ---- 400 years are 146097 days ---- *)

Lemma DayFromYear_shift y e : DayFromYear (y + 400 * e) = DayFromYear y + 146097 * e.
Proof. unfold DayFromYear. lia. Qed.

Lemma InLeapYear_shift y e : InLeapYear (y + 400 * e) = InLeapYear y.
Proof.
  unfold InLeapYear.
  replace ((y + 400 * e) mod 4) with (y mod 4) by lia.
  replace ((y + 400 * e) mod 100) with (y mod 100) by lia.
  replace ((y + 400 * e) mod 400) with (y mod 400) by lia.
  reflexivity.
Qed.

Lemma days_to_ymd_shift e r : 0 <= r < 146097 ->
  days_to_ymd (146097 * e + r - 719468) =
  let '(y, m, d) := days_to_ymd (r - 719468) in (y + 400 * e, m, d).
Proof.
  intros Hr. unfold days_to_ymd.
  replace (146097 * e + r - 719468 + 719468) with (146097 * e + r) by lia.
  replace (r - 719468 + 719468) with r by lia.
  rewrite !floor_quot_146097.
  replace ((146097 * e + r) / 146097) with e by lia.
  replace (r / 146097) with 0 by lia.
  replace (146097 * e + r - e * 146097) with r by lia.
  replace (r - 0 * 146097) with r by lia.
  set (yoe := (r - r / 1460 + r / 36524 - r / 146096) / 365).
  set (doy := r - (365 * yoe + yoe / 4 - yoe / 100)).
  set (mp := (5 * doy + 2) / 153).
  destruct (mp <? 10); [destruct (mp + 3 <=? 2)|destruct (mp - 9 <=? 2)]; f_equal; f_equal; lia.
Qed.

Lemma ymd_to_days_shift y q m d : ymd_to_days (y + 400 * q) m d = ymd_to_days y m d + 146097 * q.
Proof.
  unfold ymd_to_days. rewrite !floor_quot_400.
  destruct (m <=? 2).
  - replace ((y + 400 * q - 1) / 400) with ((y - 1) / 400 + q) by lia. lia.
  - replace ((y + 400 * q) / 400) with (y / 400 + q) by lia. lia.
Qed.

(* ---- one era, by computation ---- *)

Definition era_check (r : Z) : bool :=
  let day := r - 719468 in
  let '(y, m, d) := days_to_ymd day in
  is_civil_b day y m d && days_to_ymd_unsigned_ok day && (1 <=? d) && (d <=? days_in_month y m).

Lemma era_checked : all_below 146097 era_check = true.
Proof. vm_compute. reflexivity. Qed.

Definition year_check (i : Z) : bool :=
  let y := i / 12 in let m := i mod 12 + 1 in
  ymd_to_days y m 1 =? DayFromYear y + MonthStart m (InLeapYear y).

Lemma years_checked : all_below 4800 year_check = true.
Proof. vm_compute. reflexivity. Qed.

Lemma is_civil_b_spec day y m dd : is_civil_b day y m dd = true -> is_civil day y m dd.
Proof.
  unfold is_civil_b, is_civil. intros H.
  repeat (apply andb_true_iff in H; destruct H as [H ?]).
  repeat match goal with
         | X : (_ <=? _) = true |- _ => apply Z.leb_le in X
         | X : (_ <? _) = true |- _ => apply Z.ltb_lt in X
         | X : (_ =? _) = true |- _ => apply Z.eqb_eq in X
         end.
  lia.
Qed.

(* ---- all days ---- *)

Theorem days_to_ymd_is_civil day :
  let '(y, m, d) := days_to_ymd day in
  is_civil day y m d /\ 1 <= d <= days_in_month y m /\ days_to_ymd_unsigned_ok day = true.
Proof.
  set (e := (day + 719468) / 146097). set (r := (day + 719468) mod 146097).
  assert (Hr : 0 <= r < 146097) by (subst r; lia).
  assert (Hd : day = 146097 * e + r - 719468) by (subst e r; lia).
  pose proof (all_below_spec _ _ era_checked r ltac:(lia)) as C. unfold era_check in C.
  assert (U : days_to_ymd_unsigned_ok day = days_to_ymd_unsigned_ok (r - 719468)).
  { unfold days_to_ymd_unsigned_ok. rewrite Hd.
    replace (146097 * e + r - 719468 + 719468) with (146097 * e + r) by lia.
    replace (r - 719468 + 719468) with r by lia.
    rewrite !floor_quot_146097.
    replace ((146097 * e + r) / 146097) with e by lia.
    replace (r / 146097) with 0 by lia.
    replace (146097 * e + r - e * 146097) with r by lia.
    replace (r - 0 * 146097) with r by lia. reflexivity. }
  rewrite U. pose proof (days_to_ymd_shift e r Hr) as Sh. rewrite <- Hd in Sh. rewrite Sh. clear Sh.
  destruct (days_to_ymd (r - 719468)) as [[y0 m0] d0].
  apply andb_true_iff in C; destruct C as [C C4]. apply andb_true_iff in C; destruct C as [C C3].
  apply andb_true_iff in C; destruct C as [C C2].
  apply is_civil_b_spec in C. unfold is_civil in *.
  rewrite !InLeapYear_shift.
  replace (y0 + 400 * e + 1) with (y0 + 1 + 400 * e) by lia.
  rewrite !DayFromYear_shift.
  assert (DM : days_in_month (y0 + 400 * e) m0 = days_in_month y0 m0).
  { unfold days_in_month. rewrite !is_leap_year_InLeapYear, InLeapYear_shift. reflexivity. }
  rewrite DM.
  repeat match goal with
         | X : (_ <=? _) = true |- _ => apply Z.leb_le in X
         | X : (_ <? _) = true |- _ => apply Z.ltb_lt in X
         end.
  repeat split; try assumption; lia.
Qed.

Theorem ymd_to_days_is_MakeDay y m d : 1 <= m <= 12 ->
  ymd_to_days y m d = DayFromYear y + MonthStart m (InLeapYear y) + d - 1.
Proof.
  intros Hm.
  assert (L : ymd_to_days y m d = ymd_to_days y m 1 + d - 1) by (unfold ymd_to_days; lia).
  rewrite L. clear L.
  set (q := y / 400). set (s := y mod 400).
  assert (Hy : y = s + 400 * q) by (subst q s; lia).
  assert (Hs : 0 <= s < 400) by (subst s; lia).
  rewrite Hy, ymd_to_days_shift, DayFromYear_shift, InLeapYear_shift.
  pose proof (all_below_spec _ _ years_checked (12 * s + (m - 1)) ltac:(lia)) as C.
  unfold year_check in C.
  replace ((12 * s + (m - 1)) / 12) with s in C by lia.
  replace ((12 * s + (m - 1)) mod 12 + 1) with m in C by lia.
  apply Z.eqb_eq in C. lia.
Qed.

Theorem ymd_days_round_trip day :
  let '(y, m, d) := days_to_ymd day in ymd_to_days y m d = day.
Proof.
  pose proof (days_to_ymd_is_civil day) as H.
  destruct (days_to_ymd day) as [[y m] d]. destruct H as [C _]. unfold is_civil in C.
  rewrite ymd_to_days_is_MakeDay by lia. lia.
Qed.

(* the civil date of a day is unique: DayFromYear is strictly increasing, the month table too *)
Lemma DayFromYear_step y : DayFromYear (y + 1) = DayFromYear y + DaysInYear y.
Proof.
  unfold DayFromYear, DaysInYear, InLeapYear.
  destruct (Z.eqb_spec (y mod 4) 0); cbn [negb]; [destruct (Z.eqb_spec (y mod 100) 0); cbn [negb]; [destruct (Z.eqb_spec (y mod 400) 0)|]|]; lia.
Qed.

Lemma DayFromYear_mono a b : a <= b -> DayFromYear a <= DayFromYear b.
Proof.
  intros H. replace b with (a + Z.of_nat (Z.to_nat (b - a))) by lia.
  induction (Z.to_nat (b - a)) as [|n IH]; [replace (a + Z.of_nat 0) with a by lia; lia|].
  replace (a + Z.of_nat (S n)) with (a + Z.of_nat n + 1) by lia.
  rewrite DayFromYear_step. unfold DaysInYear. destruct (InLeapYear _); lia.
Qed.

Theorem civil_unique day y m d y' m' d' : is_civil day y m d -> is_civil day y' m' d' -> y = y' /\ m = m' /\ d = d'.
Proof.
  unfold is_civil. intros (Y & M & S & D) (Y' & M' & S' & D').
  assert (y = y').
  { destruct (Z.lt_trichotomy y y') as [L|[E|L]]; [|exact E|].
    - pose proof (DayFromYear_mono (y + 1) y' ltac:(lia)). lia.
    - pose proof (DayFromYear_mono (y' + 1) y ltac:(lia)). lia. }
  subst y'. assert (m = m'); [|subst; lia].
  assert (Mono : forall a b l, 1 <= a -> a < b -> b <= 13 -> MonthStart a l < MonthStart b l).
  { intros a b l Ha Hab Hb. assert (a = 1 \/ a = 2 \/ a = 3 \/ a = 4 \/ a = 5 \/ a = 6 \/ a = 7 \/ a = 8 \/ a = 9 \/ a = 10 \/ a = 11 \/ a = 12) as Ca by lia.
    assert (b = 2 \/ b = 3 \/ b = 4 \/ b = 5 \/ b = 6 \/ b = 7 \/ b = 8 \/ b = 9 \/ b = 10 \/ b = 11 \/ b = 12 \/ b = 13) as Cb by lia.
    destruct l; repeat (destruct Ca as [->|Ca]); try subst a; repeat (destruct Cb as [->|Cb]); try subst b; cbn; lia. }
  assert (MonoLe : forall a b l, 1 <= a -> a <= b -> b <= 13 -> MonthStart a l <= MonthStart b l).
  { intros a b l Ha Hab Hb. destruct (Z.eq_dec a b) as [->|]; [lia|]. pose proof (Mono a b l Ha ltac:(lia) Hb). lia. }
  destruct (Z.lt_trichotomy m m') as [L|[E|L]]; [|exact E|].
  - pose proof (MonoLe (m + 1) m' (InLeapYear y) ltac:(lia) ltac:(lia) ltac:(lia)). lia.
  - pose proof (MonoLe (m' + 1) m (InLeapYear y) ltac:(lia) ltac:(lia) ltac:(lia)). lia.
Qed.

(* ---- time values ---- *)

Theorem components_to_ts_is_MakeDate year month day hour minute second ms :
  Z.abs (year + month / 12) <= 400000 ->
  components_to_ts year month day hour minute second ms =
  TimeClip (MakeDate (MakeDay year month day) (MakeTime hour minute second ms)).
Proof.
  intros H. unfold components_to_ts, TimeClip, time_clip, MakeDate, MakeDay, MakeTime, MS_PER_DAY.
  destruct (Z.gtb_spec (Z.abs (year + month / 12)) 400000) as [G|G]; [lia|].
  rewrite ymd_to_days_is_MakeDay by lia.
  replace (month mod 12 + 1) with (month mod 12 + 1) by reflexivity.
  match goal with |- (if ?a >? _ then _ else _) = (if ?b >? _ then _ else _) => replace a with b by lia end.
  destruct (_ >? _); [reflexivity|f_equal; lia].
Qed.

Theorem ts_to_components_is_ecmascript ts :
  let c := ts_to_components ts in
  is_civil (Day ts) (c_year c) (c_month c) (c_day c) /\
  c_hour c = HourFromTime ts /\ c_minute c = MinFromTime ts /\ c_second c = SecFromTime ts /\
  c_ms c = msFromTime ts /\ c_weekday c = WeekDay (Day ts).
Proof.
  unfold ts_to_components, Day, MS_PER_DAY.
  pose proof (days_to_ymd_is_civil (ts / 86400000)) as H.
  destruct (days_to_ymd (ts / 86400000)) as [[y m] d]. destruct H as [C _].
  cbn [c_year c_month c_day c_hour c_minute c_second c_ms c_weekday].
  split; [exact C|].
  rewrite weekday_is_WeekDay.
  unfold HourFromTime, MinFromTime, SecFromTime, msFromTime.
  repeat split; lia.
Qed.

(* reading the components of a time value and putting them back gives the time value *)
Theorem components_round_trip ts : Z.abs ts <= 8640000000000000 ->
  let c := ts_to_components ts in
  components_to_ts (c_year c) (c_month c - 1) (c_day c) (c_hour c) (c_minute c) (c_second c) (c_ms c) = Some ts.
Proof.
  intros Hts. cbn zeta.
  pose proof (ts_to_components_is_ecmascript ts) as H. cbn zeta in H.
  destruct H as (C & Hh & Hm & Hs & Hms & _).
  set (c := ts_to_components ts) in *.
  unfold is_civil in C. destruct C as (Y & M & S & D).
  assert (Hy : Z.abs (c_year c) <= 400000).
  { unfold Day, DayFromYear in Y. lia. }
  rewrite components_to_ts_is_MakeDate by (replace ((c_month c - 1) / 12) with 0 by lia; lia).
  unfold TimeClip, MakeDate, MakeDay, MakeTime.
  replace ((c_month c - 1) / 12) with 0 by lia.
  replace ((c_month c - 1) mod 12 + 1) with (c_month c) by lia.
  replace (c_year c + 0) with (c_year c) by lia.
  rewrite Hh, Hm, Hs, Hms. unfold HourFromTime, MinFromTime, SecFromTime, msFromTime, Day in *.
  match goal with |- (if ?a >? _ then _ else _) = _ => replace a with (Z.abs ts) by lia end.
  destruct (Z.gtb_spec (Z.abs ts) 8640000000000000); [lia|]. f_equal. lia.
Qed.
