(* The source semantics of Lang/Core.v depends on the operators only through
   their values: two meanings of the operators that agree pointwise give the
   same evaluation. *)
From Coq Require Import String ZArith Bool List.
From TsrunV Require Import Lang.Core.
Import ListNotations.

Section Ext.
  Variable V : Type.
  Variable bop uop : Type.
  Variables bsem bsem' : bop -> V -> V -> V.
  Variables usem usem' : uop -> V -> V.
  Variables typeof_sem typeof_sem' : V -> V.
  Variables truthy truthy' : V -> bool.
  Variable nullish : V -> bool.
  Variable vundef vnull : V.
  Variable vbool : bool -> V.
  Variable vint : Z -> V.
  Variable vstr : string -> V.
  Hypothesis Hb : forall o a b, bsem o a b = bsem' o a b.
  Hypothesis Hu : forall o a, usem o a = usem' o a.
  Hypothesis Hty : forall a, typeof_sem a = typeof_sem' a.
  Hypothesis Htr : forall a, truthy a = truthy' a.

  Notation eval1 := (eval V bop uop bsem usem typeof_sem truthy nullish vundef vnull vbool vint vstr).
  Notation eval2 := (eval V bop uop bsem' usem' typeof_sem' truthy' nullish vundef vnull vbool vint vstr).
  Notation exec1 := (exec V bop uop bsem usem typeof_sem truthy nullish vundef vnull vbool vint vstr).
  Notation exec2 := (exec V bop uop bsem' usem' typeof_sem' truthy' nullish vundef vnull vbool vint vstr).

  Lemma short_ext o v : short_circuits V truthy nullish o v = short_circuits V truthy' nullish o v.
  Proof. destruct o; cbn; rewrite ?Htr; reflexivity. Qed.

  Lemma eval_ext : forall e en, eval1 e en = eval2 e en.
  Proof.
    induction e as [l|x|o a IHa b IHb|o a IHa|a IHa|x|o a IHa b IHb|c IHc a IHa b IHb|x a IHa|o x a IHa|o x a IHa];
      intros en; cbn [eval]; try reflexivity.
    - rewrite IHa. destruct (eval2 a en) as [[va|er] en1]; [|reflexivity].
      rewrite IHb. destruct (eval2 b en1) as [[vb|er] en2]; [|reflexivity]. rewrite Hb. reflexivity.
    - rewrite IHa. destruct (eval2 a en) as [[va|er] en1]; [|reflexivity]. rewrite Hu. reflexivity.
    - rewrite IHa. destruct (eval2 a en) as [[va|er] en1]; [|reflexivity]. rewrite Hty. reflexivity.
    - rewrite Hty. reflexivity.
    - rewrite IHa. destruct (eval2 a en) as [[va|er] en1]; [|reflexivity].
      rewrite short_ext. destruct (short_circuits V truthy' nullish o va); [reflexivity|apply IHb].
    - rewrite IHc. destruct (eval2 c en) as [[vc|er] en1]; [|reflexivity].
      rewrite Htr. destruct (truthy' vc); [apply IHa|apply IHb].
    - rewrite IHa. reflexivity.
    - destruct (lookup V x en) as [cur|]; [|reflexivity].
      rewrite IHa. destruct (eval2 a en) as [[va|er] en1]; [|reflexivity]. rewrite Hb. reflexivity.
    - destruct (lookup V x en) as [cur|]; [|reflexivity].
      rewrite short_ext. destruct (short_circuits V truthy' nullish o cur); [reflexivity|].
      rewrite IHa. reflexivity.
  Qed.

  Lemma exec_ext : forall fuel s en, exec1 fuel s en = exec2 fuel s en.
  Proof.
    induction fuel as [|f IH]; intros s en; [reflexivity|].
    destruct s as [e|m x e|body|c t e|c body| | |]; cbn [exec]; try reflexivity.
    - rewrite eval_ext. reflexivity.
    - rewrite eval_ext. reflexivity.
    - generalize (push V en). induction body as [|s1 r IHr]; intros en0; [reflexivity|].
      rewrite IH. destruct (exec2 f s1 en0) as [[en1|en1|en1|er]|]; try reflexivity. apply IHr.
    - rewrite eval_ext. destruct (eval2 c en) as [[vc|er] en1]; [|reflexivity].
      rewrite Htr. destruct (truthy' vc); [apply IH|]. destruct e; [apply IH|reflexivity].
    - rewrite eval_ext. destruct (eval2 c en) as [[vc|er] en1]; [|reflexivity].
      rewrite Htr. destruct (truthy' vc); [|reflexivity].
      rewrite IH. destruct (exec2 f body en1) as [[en2|en2|en2|er]|]; try reflexivity; apply IH.
  Qed.

  Lemma run_source_ext fuel body final :
    run_source V bop uop bsem usem typeof_sem truthy nullish vundef vnull vbool vint vstr fuel body final =
    run_source V bop uop bsem' usem' typeof_sem' truthy' nullish vundef vnull vbool vint vstr fuel body final.
  Proof.
    unfold run_source.
    assert (Hl : forall l en, exec_list V bop uop bsem usem typeof_sem truthy nullish vundef vnull vbool vint vstr fuel l en
                              = exec_list V bop uop bsem' usem' typeof_sem' truthy' nullish vundef vnull vbool vint vstr fuel l en).
    { induction l as [|s1 r IHr]; intros en; [reflexivity|]. cbn [exec_list]. rewrite exec_ext.
      destruct (exec2 fuel s1 en) as [[en1|en1|en1|er]|]; try reflexivity. apply IHr. }
    rewrite Hl. destruct (exec_list _ _ _ _ _ _ _ _ _ _ _ _ _ fuel body [[]]) as [[en1|en1|en1|er]|]; try reflexivity.
    rewrite eval_ext. reflexivity.
  Qed.
End Ext.
