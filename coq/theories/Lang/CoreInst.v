(* The core of Lang/Core.v instantiated with the primitive values and the
   operators of Lang/Ops.v, twice: with the operators as the VM implements them
   (what the compiled code runs on) and with the operators as ECMAScript
   specifies them (what the source means). No proofs here. *)
From Coq Require Import String ZArith Bool List.
From TsrunV Require Import Lang.Ops Lang.Core.
Import ListNotations.

Section Inst.
  Variable F : Type.
  Variables fadd fsub fmul fdiv frem fpow : F -> F -> F.
  Variable fneg fabs : F -> F.
  Variables flt feq : F -> F -> bool.
  Variables fnan fzero fone finf : F.
  Variable fisnan : F -> bool.
  Variable tonum : string -> F.
  Variable tostr : F -> string.
  Variable toint32 touint32 : F -> Z.
  Variable ofint : Z -> F.
  Variable str_lt : string -> string -> bool.

  Definition P := prim F.
  Definition is_nullish (v : P) : bool := match v with PUndef _ | PNull _ => true | _ => false end.

  (* implementation side *)
  Definition vm_b := vm_binop F fadd fsub fmul fdiv frem fpow fabs flt feq fnan fzero fone finf fisnan tonum tostr toint32 touint32 ofint str_lt.
  Definition vm_u := vm_unop F fneg feq fnan fzero fone fisnan tonum toint32 ofint.
  Definition vm_truthy := to_boolean F feq fzero fisnan.
  (* specification side *)
  Definition es_b := es_binop F fadd fsub fmul fdiv frem fpow fabs flt feq fnan fzero fone finf fisnan tonum tostr toint32 touint32 ofint str_lt.
  Definition es_u := es_unop F fneg feq fnan fzero fone fisnan tonum toint32 ofint.
  Definition es_truthy := ToBoolean F feq fzero fisnan.

  Definition P_int (z : Z) : P := PNum F (ofint z).

  Definition es_run_source :=
    run_source P binop unop es_b es_u (es_u Typeof) es_truthy is_nullish
               (PUndef F) (PNull F) (PBool F) P_int (PStr F).
  Definition vm_run_source :=
    run_source P binop unop vm_b vm_u (vm_u Typeof) vm_truthy is_nullish
               (PUndef F) (PNull F) (PBool F) P_int (PStr F).
  Definition machine_run :=
    vm_run P binop unop vm_b vm_u (vm_u Typeof) vm_truthy is_nullish
           (PUndef F) (PNull F) (PBool F) P_int (PStr F).
  Definition machine_init := vm_init P (PUndef F).
End Inst.
