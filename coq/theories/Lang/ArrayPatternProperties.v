(* C01 -- property theorems only (mechanism M4: array patterns over the iterator protocol). *)
From Coq Require Import List Arith Bool.
From TsrunV Require Import Lang.ArrayPattern Lang.ArrayPatternProofs.
Import ListNotations.

(* Wherever the instructions emitted for an array pattern sit in a chunk, for
   every pattern (any number of identifier positions and holes), every iterator
   (any number of values, any 'value' on the result that reports done) and every
   machine state, running them ends right behind the pattern's code with exactly
   the ECMAScript outcome: the values bound, the number of next() calls, whether
   the iterator was exhausted, and return() called exactly when it was not. *)
Theorem c01_array_pattern_code_has_the_ecmascript_meaning :
  forall (V : Type) (undef ret : V) (code : list op) (ks : list bool) (p : nat) (it : list V) (r : res V) (e : V) (d : bool),
  code_at code p (cpattern ks p) ->
  exists k r' e' d',
    run V undef ret code k (mk V p it r e d [] 0 false) =
    Some (mk V (length (cpattern ks p) + p) (a_iter V (spec V undef ks it)) r' e' d'
             (a_bound V (spec V undef ks it)) (a_nexts V (spec V undef ks it)) (spec_closed V undef ks it))
    /\ d' = a_done V (spec V undef ks it).
Proof. exact cpattern_correct. Qed.
Print Assumptions c01_array_pattern_code_has_the_ecmascript_meaning.

(* That meaning in closed form: identifier position x receives the x-th value of
   the iterator, undefined beyond its end (never the value of the finishing
   result); next() is called once per position up to and including the call that
   reports done; the iterator is closed iff it still had a value for every position. *)
Theorem c01_array_pattern_takes_values_then_undefined :
  forall (V : Type) (undef : V) (ks : list bool) (it : list V),
  a_bound V (spec V undef ks it) = map (fun x => nth x it undef) (positions ks 0) /\
  a_nexts V (spec V undef ks it) = Nat.min (length ks) (S (length it)) /\
  a_done V (spec V undef ks it) = (length it <? length ks) /\
  spec_closed V undef ks it = (length ks <=? length it).
Proof. exact spec_closed_form. Qed.
Print Assumptions c01_array_pattern_takes_values_then_undefined.

(* The same for a pattern that ends in a rest element: the rest array holds exactly the values
   beyond the positions, an iterator that already reported done is not asked again, and the
   iterator is never closed (it is exhausted). *)
Theorem c01_array_pattern_with_rest_has_the_ecmascript_meaning :
  forall (V : Type) (undef ret : V) (code : list op) (ks : list bool) (p : nat) (it : list V) (r : res V) (e : V) (d : bool),
  code_at code p (cpattern_rest ks p) ->
  exists k r' e' d',
    run V undef ret code k (mk V p it r e d [] 0 false) =
    Some (mk V (length (cpattern_rest ks p) + p) (a_iter V (spec_rest V undef ks it)) r' e' d'
             (a_bound V (spec_rest V undef ks it)) (a_nexts V (spec_rest V undef ks it)) false).
Proof. exact cpattern_rest_correct. Qed.
Print Assumptions c01_array_pattern_with_rest_has_the_ecmascript_meaning.

Theorem c01_array_pattern_rest_takes_what_is_left :
  forall (V : Type) (undef : V) (ks : list bool) (it : list V),
  a_bound V (spec_rest V undef ks it) = map (fun x => nth x it undef) (positions ks 0) ++ skipn (length ks) it /\
  a_nexts V (spec_rest V undef ks it) = S (length it) /\
  a_done V (spec_rest V undef ks it) = true.
Proof. exact spec_rest_closed_form. Qed.
Print Assumptions c01_array_pattern_rest_takes_what_is_left.

(* The compilation this replaced does not have that meaning (the witness is the
   defect fixed by 6716020: a generator's return value bound by the pattern). *)
Theorem c01_array_pattern_old_compilation_refuted :
  exists (ks : list bool) (it : list nat),
    let s0 := mk nat 0 it (RNone nat) 0 false [] 0 false in
    match run_halt nat 0 2 (cpattern_old ks) 100 s0 with
    | Some s => bound nat s <> a_bound nat (spec nat 0 ks it) /\ closed nat s <> spec_closed nat 0 ks it
    | None => False
    end.
Proof. exact old_compilation_refuted. Qed.
Print Assumptions c01_array_pattern_old_compilation_refuted.

(* Non-vacuity: the hypothesis holds for the code of a real chunk shape (a prefix, the
   pattern, a suffix), and the conclusion is a concrete run. *)
Example c01_array_pattern_witness :
  code_at ([OJump 1] ++ cpattern [true; false; true] 1 ++ [OJump 0]) 1 (cpattern [true; false; true] 1) /\
  run_halt nat 0 9 (cpattern [true; false; true] 0) 100 (mk nat 0 [5; 6] (RNone nat) 0 true [] 0 false)
  = Some (mk nat 24 [] (RDone nat) 0 true [5; 0] 3 false).
Proof. split; [exact (code_at_embedded [OJump 1] _ [OJump 0])|vm_compute; reflexivity]. Qed.
