(* C01, mechanism M5: the calendar arithmetic of Date (src/interpreter/builtins/date.rs).

   days_to_ymd / ymd_to_days / days_to_weekday / components_to_ts, transcribed
   with Rust's truncating division and remainder where the source uses them, and
   the functions ECMAScript 21.4.1 defines dates by: DayFromYear, InLeapYear,
   the month table of MonthFromTime / DateFromTime, WeekDay, MakeDay, MakeTime,
   MakeDate, TimeClip. *)
From Coq Require Import ZArith List Bool Lia.
Import ListNotations.
Local Open Scope Z_scope.

(* ---- the implementation ---- *)

(* `if z >= 0 { z } else { z - (n-1) } / n` with Rust's truncating `/` *)
Definition floor_quot (z n : Z) : Z := Z.quot (if z >=? 0 then z else z - (n - 1)) n.

Definition days_to_ymd (days : Z) : Z * Z * Z :=
  let z := days + 719468 in
  let era := floor_quot z 146097 in
  let doe := z - era * 146097 in
  let yoe := (doe - doe / 1460 + doe / 36524 - doe / 146096) / 365 in
  let y := yoe + era * 400 in
  let doy := doe - (365 * yoe + yoe / 4 - yoe / 100) in
  let mp := (5 * doy + 2) / 153 in
  let d := doy - (153 * mp + 2) / 5 + 1 in
  let m := if mp <? 10 then mp + 3 else mp - 9 in
  let y := if m <=? 2 then y + 1 else y in
  (y, m, d).

(* the unsigned intermediate values of days_to_ymd (u32 in the source): none may go below zero *)
Definition days_to_ymd_unsigned_ok (days : Z) : bool :=
  let z := days + 719468 in
  let era := floor_quot z 146097 in
  let doe := z - era * 146097 in
  let yoe := (doe - doe / 1460 + doe / 36524 - doe / 146096) / 365 in
  let doy := doe - (365 * yoe + yoe / 4 - yoe / 100) in
  let mp := (5 * doy + 2) / 153 in
  (0 <=? doe) && (doe <? 146097) && (0 <=? doe - doe / 1460) && (0 <=? doe - doe / 1460 + doe / 36524 - doe / 146096) &&
  (0 <=? yoe) && (yoe <=? 399) && (0 <=? doy) && (doy <=? 365) && (0 <=? mp) && (mp <=? 11) && (0 <=? doy - (153 * mp + 2) / 5).

Definition ymd_to_days (year month day : Z) : Z :=
  let y := if month <=? 2 then year - 1 else year in
  let m := if month <=? 2 then month + 12 else month in
  let era := floor_quot y 400 in
  let yoe := y - era * 400 in
  let doy := (153 * (m - 3) + 2) / 5 + day - 1 in
  let doe := yoe * 365 + yoe / 4 - yoe / 100 + doy in
  era * 146097 + doe - 719468.

(* ((days % 7 + 4 + 7) % 7) with Rust's truncating `%` *)
Definition days_to_weekday (days : Z) : Z := Z.rem (Z.rem days 7 + 4 + 7) 7.

Definition is_leap_year (year : Z) : bool :=
  (Z.rem year 4 =? 0) && (negb (Z.rem year 100 =? 0) || (Z.rem year 400 =? 0)).

Definition days_in_month (year month : Z) : Z :=
  if (month =? 1) || (month =? 3) || (month =? 5) || (month =? 7) || (month =? 8) || (month =? 10) || (month =? 12) then 31
  else if (month =? 4) || (month =? 6) || (month =? 9) || (month =? 11) then 30
  else if month =? 2 then (if is_leap_year year then 29 else 28)
  else 0.

(* ---- ECMAScript 21.4.1 ---- *)

Definition DayFromYear (y : Z) : Z :=
  365 * (y - 1970) + (y - 1969) / 4 - (y - 1901) / 100 + (y - 1601) / 400.

Definition InLeapYear (y : Z) : bool :=
  if negb (y mod 4 =? 0) then false else if negb (y mod 100 =? 0) then true else (y mod 400 =? 0).

Definition DaysInYear (y : Z) : Z := if InLeapYear y then 366 else 365.

(* first day-within-year of month m (1..12), from the table of MonthFromTime *)
Definition MonthStart (m : Z) (leap : bool) : Z :=
  let l := if leap then 1 else 0 in
  if m =? 1 then 0 else if m =? 2 then 31 else if m =? 3 then 59 + l else if m =? 4 then 90 + l
  else if m =? 5 then 120 + l else if m =? 6 then 151 + l else if m =? 7 then 181 + l else if m =? 8 then 212 + l
  else if m =? 9 then 243 + l else if m =? 10 then 273 + l else if m =? 11 then 304 + l else if m =? 12 then 334 + l
  else 365 + l.

Definition WeekDay (day : Z) : Z := (day + 4) mod 7.

(* "day is the civil date (y, m, dd)" in ECMAScript's terms: YearFromTime, MonthFromTime + 1, DateFromTime *)
Definition is_civil (day y m dd : Z) : Prop :=
  DayFromYear y <= day < DayFromYear (y + 1) /\ 1 <= m <= 12 /\
  MonthStart m (InLeapYear y) <= day - DayFromYear y < MonthStart (m + 1) (InLeapYear y) /\
  dd = day - DayFromYear y - MonthStart m (InLeapYear y) + 1.

Definition is_civil_b (day y m dd : Z) : bool :=
  (DayFromYear y <=? day) && (day <? DayFromYear (y + 1)) && (1 <=? m) && (m <=? 12) &&
  (MonthStart m (InLeapYear y) <=? day - DayFromYear y) && (day - DayFromYear y <? MonthStart (m + 1) (InLeapYear y)) &&
  (dd =? day - DayFromYear y - MonthStart m (InLeapYear y) + 1).

(* iteration over 0 .. n-1 that vm_compute can run for n in the hundred thousands *)
Definition all_below (n : N) (f : Z -> bool) : bool :=
  snd (N.iter n (fun p => (fst p + 1, snd p && f (fst p))) (0, true)).

(* ---- time values ---- *)

Definition MS_PER_DAY : Z := 86400000.

Definition time_clip (t : Z) : option Z := if Z.abs t >? 8640000000000000 then None else Some t.

(* components_to_ts on integral (already truncated) components; None is NaN. The f64 arithmetic of
   the source is exact on this domain as long as every intermediate stays below 2^53. *)
Definition components_to_ts (year month day hour minute second ms : Z) : option Z :=
  let norm_year := year + month / 12 in
  if Z.abs norm_year >? 400000 then None else
  let norm_month := month mod 12 + 1 in
  let base_days := ymd_to_days norm_year norm_month 1 in
  let total_days := base_days + day - 1 in
  let time_ms := hour * 3600000 + minute * 60000 + second * 1000 + ms in
  time_clip (total_days * MS_PER_DAY + time_ms).

Record components := { c_year : Z; c_month : Z; c_day : Z; c_hour : Z; c_minute : Z; c_second : Z; c_ms : Z; c_weekday : Z }.

(* ts_to_components: div_euclid / rem_euclid by a positive constant are floor division and modulus;
   the inner `/` and `%` act on non-negative values *)
Definition ts_to_components (ts : Z) : components :=
  let days := ts / MS_PER_DAY in
  let time_of_day := ts mod MS_PER_DAY in
  let '(year, month, day) := days_to_ymd days in
  {| c_year := year; c_month := month; c_day := day;
     c_hour := Z.quot time_of_day 3600000;
     c_minute := Z.quot (Z.rem time_of_day 3600000) 60000;
     c_second := Z.quot (Z.rem time_of_day 60000) 1000;
     c_ms := Z.rem time_of_day 1000;
     c_weekday := days_to_weekday days |}.

(* ECMAScript 21.4.1.3 - 21.4.1.31 *)
Definition Day (t : Z) : Z := t / 86400000.
Definition TimeWithinDay (t : Z) : Z := t mod 86400000.
Definition HourFromTime (t : Z) : Z := (t / 3600000) mod 24.
Definition MinFromTime (t : Z) : Z := (t / 60000) mod 60.
Definition SecFromTime (t : Z) : Z := (t / 1000) mod 60.
Definition msFromTime (t : Z) : Z := t mod 1000.
Definition MakeTime (h m s ms : Z) : Z := h * 3600000 + m * 60000 + s * 1000 + ms.
Definition MakeDay (year month date : Z) : Z :=
  let ym := year + month / 12 in
  let mn := month mod 12 in
  DayFromYear ym + MonthStart (mn + 1) (InLeapYear ym) + date - 1.
Definition MakeDate (day time : Z) : Z := day * 86400000 + time.
Definition TimeClip (t : Z) : option Z := if Z.abs t >? 8640000000000000 then None else Some t.
