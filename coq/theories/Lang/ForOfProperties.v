(* C01 -- property theorems only (mechanism M6: for-of with a binding per iteration). *)
From Coq Require Import List Arith Bool.
From TsrunV Require Import Lang.ForOf Lang.ForOfProofs.
Import ListNotations.

(* Wherever the loop's instructions sit in a chunk: for every iterator (any number of values),
   every body (for each value it completes, breaks or continues) and every machine state, the loop
   runs the body exactly as ECMAScript prescribes - which executions, in which environments, how
   many next() calls, whether the iterator is closed - and ends right behind its code with the
   environments and handlers that were in force before it. *)
Theorem c01_for_of_code_has_the_ecmascript_meaning :
  forall (V : Type) (undef : V) (body : V -> outcome) (code : list op) (p : nat) (F : list (frame V)) (T : nat),
  code_at code p (cforof p) ->
  forall (it : list V) (r : res V) (e : V) (nid : nat) (l : list (nat * option V)) (n : nat),
  exists k it' r' e',
    run V undef body T code k (mk V p it r e F nid T l n false) =
    Some (let '(L, N, C, nid') := spec V body it nid in
          mk V (12 + p) it' r' e' F nid' T (l ++ L) (n + N) C).
Proof. exact cforof_correct. Qed.
Print Assumptions c01_for_of_code_has_the_ecmascript_meaning.

(* The same for for-in over the keys iterator, which has no handler and is never closed. *)
Theorem c01_for_in_code_has_the_ecmascript_meaning :
  forall (V : Type) (undef : V) (body : V -> outcome) (code : list op) (p : nat) (F : list (frame V)) (T : nat),
  code_at code p (cforin p) ->
  forall (it : list V) (r : res V) (e : V) (nid : nat) (l : list (nat * option V)) (n : nat),
  exists k it' r' e',
    run V undef body T code k (mk V p it r e F nid T l n false) =
    Some (let '(L, N, C, nid') := spec_in V body it nid in
          mk V (8 + p) it' r' e' F nid' T (l ++ L) (n + N) C).
Proof. exact cforin_correct. Qed.
Print Assumptions c01_for_in_code_has_the_ecmascript_meaning.

(* That meaning in closed form: the body sees the values up to and including the first it breaks on,
   each bound in an environment created for that execution (consecutive fresh identities); next() is
   called once per value seen, once more if the loop ran to the end; the iterator is closed exactly
   when the body broke. *)
Theorem c01_for_of_binds_each_value_in_its_own_environment :
  forall (V : Type) (body : V -> outcome) (it : list V) (nid : nat),
  let '(L, N, C, nid') := spec V body it nid in
  map snd L = map Some (upto_break V body it) /\
  map fst L = seq nid (length (upto_break V body it)) /\
  N = (if C then length (upto_break V body it) else S (length it)) /\
  C = existsb (fun v => match body v with Brk => true | _ => false end) it /\
  nid' = nid + length (upto_break V body it).
Proof. exact spec_log. Qed.
Print Assumptions c01_for_of_binds_each_value_in_its_own_environment.

Theorem c01_for_of_environments_are_distinct :
  forall (V : Type) (body : V -> outcome) (it : list V) (nid : nat),
  let '(L, _, _, _) := spec V body it nid in NoDup (map fst L).
Proof. exact spec_environments_distinct. Qed.
Print Assumptions c01_for_of_environments_are_distinct.

(* The compilation this replaced (fix 6457462) shares one environment between the executions of the
   body: the witness is a two-value loop after which the single environment holds the last value. *)
Theorem c01_for_of_old_compilation_refuted :
  exists (it : list nat),
    match run_halt nat 0 (fun _ => Normal) 0 (cforof_old 0) 100 (mk nat 0 it (RNone nat) 0 [(7, None)] 8 0 [] 0 false) with
    | Some s => ~ NoDup (map fst (log nat s)) /\ frames nat s = [(7, Some 2)]
    | None => False
    end.
Proof. exact old_compilation_refuted. Qed.
Print Assumptions c01_for_of_old_compilation_refuted.

Example c01_for_of_witness :
  code_at ([OJump 1] ++ cforof 1 ++ [OJump 0]) 1 (cforof 1) /\
  run_halt nat 0 (fun v => if v =? 12 then Brk else if v =? 11 then Cont else Normal) 3 (cforof 0) 100
    (mk nat 0 [10; 11; 12; 13] (RNone nat) 0 [(7, None)] 8 3 [] 0 false)
  = Some (mk nat 12 [13] (RVal nat 12) 12 [(7, None)] 11 3 [(8, Some 10); (9, Some 11); (10, Some 12)] 3 true).
Proof. split; [exact (code_at_embedded [OJump 1] _ [OJump 0])|vm_compute; reflexivity]. Qed.
