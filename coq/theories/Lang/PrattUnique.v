(* The stratified grammar is unambiguous: a derivation is determined by the
   operands and operators it lists. Hence the parser's tree is the only one. *)
From Coq Require Import List Arith Bool Lia.
From TsrunV Require Import Lang.Pratt Lang.PrattProofs.
Import ListNotations.

Section Unique.
  Variable A O : Type.
  Variable prec : O -> nat.
  Variable right_assoc : O -> bool.
  Hypothesis level_assoc : forall o o', prec o = prec o' -> right_assoc o = right_assoc o'.

  Notation tree := (tree A O).
  Notation derives := (derives A O prec right_assoc).
  Notation first := (first A O).
  Notation others := (others A O).

  Definition all_ge (q : nat) (l : list (O * A)) : Prop := Forall (fun x => q <= prec (fst x)) l.

  Lemma derives_all_ge : forall t p, derives p t -> all_ge p (others t).
  Proof.
    induction t as [a|o l IHl r IHr]; intros p H; cbn [Pratt.others]; [constructor|].
    cbn [Pratt.derives] in H. destruct H as [Hp H]. unfold all_ge in *.
    apply Forall_app. destruct (right_assoc o).
    - destruct H as [Hl Hr]. split.
      + eapply Forall_impl; [|apply (IHl _ Hl)]. intros x Hx; cbn in *; lia.
      + constructor; [cbn; exact Hp|]. eapply Forall_impl; [|apply (IHr _ Hr)]. intros x Hx; cbn in *; lia.
    - destruct H as [Hl Hr]. split.
      + eapply Forall_impl; [|apply (IHl _ Hl)]. intros x Hx; cbn in *; lia.
      + constructor; [cbn; exact Hp|]. eapply Forall_impl; [|apply (IHr _ Hr)]. intros x Hx; cbn in *; lia.
  Qed.

  (* the split point is the last weakest operator (everything after it is stronger) ... *)
  Lemma split_unique_last : forall (xs xs' ys ys' : list (O * A)) x x',
      xs ++ x :: ys = xs' ++ x' :: ys' -> prec (fst x) = prec (fst x') ->
      all_ge (S (prec (fst x))) ys -> all_ge (S (prec (fst x))) ys' -> xs = xs' /\ x = x' /\ ys = ys'.
  Proof.
    induction xs as [|z xs IH]; intros xs' ys ys' x x' E Hq Hy Hy'.
    - destruct xs' as [|z' xs']; cbn in E.
      + injection E as E1 E2. subst x' ys'. repeat split.
      + injection E as E1 E2. exfalso. unfold all_ge in Hy. rewrite Forall_forall in Hy.
        assert (Hin : In x' ys) by (rewrite E2; apply in_or_app; right; left; reflexivity).
        specialize (Hy x' Hin). lia.
    - destruct xs' as [|z' xs']; cbn in E.
      + injection E as E1 E2. exfalso. unfold all_ge in Hy'. rewrite Forall_forall in Hy'.
        assert (Hin : In x ys') by (rewrite <- E2; apply in_or_app; right; left; reflexivity).
        specialize (Hy' x Hin). lia.
      + injection E as E1 E2. destruct (IH xs' ys ys' x x' E2 Hq Hy Hy') as (F1 & F2 & F3). subst. repeat split.
  Qed.
  (* ... or the first weakest operator (everything before it is stronger) *)
  Lemma split_unique_first : forall (xs xs' ys ys' : list (O * A)) x x',
      xs ++ x :: ys = xs' ++ x' :: ys' -> prec (fst x) = prec (fst x') ->
      all_ge (S (prec (fst x))) xs -> all_ge (S (prec (fst x))) xs' -> xs = xs' /\ x = x' /\ ys = ys'.
  Proof.
    induction xs as [|z xs IH]; intros xs' ys ys' x x' E Hq Hs Hs'.
    - destruct xs' as [|z' xs']; cbn in E.
      + injection E as E1 E2. subst x' ys'. repeat split.
      + injection E as E1 E2. exfalso. inversion Hs' as [|? ? Hz _]. subst z'. cbn in Hz. lia.
    - destruct xs' as [|z' xs']; cbn in E.
      + injection E as E1 E2. exfalso. inversion Hs as [|? ? Hz _]. subst z. cbn in Hz. lia.
      + injection E as E1 E2. inversion Hs as [|? ? _ Hs1]. inversion Hs' as [|? ? _ Hs1'].
        destruct (IH xs' ys ys' x x' E2 Hq Hs1 Hs1') as (F1 & F2 & F3). subst. repeat split.
  Qed.

  Lemma root_prec_is_weakest o l r p : derives p (Node A O o l r) -> all_ge (prec o) (others (Node A O o l r)).
  Proof.
    intros H. cbn [Pratt.derives] in H. destruct H as [_ H]. cbn [Pratt.others]. unfold all_ge. apply Forall_app.
    destruct (right_assoc o); destruct H as [Hl Hr].
    - split; [eapply Forall_impl; [|apply (derives_all_ge _ _ Hl)]; intros x Hx; cbn in *; lia|].
      constructor; [cbn; lia|apply (derives_all_ge _ _ Hr)].
    - split; [apply (derives_all_ge _ _ Hl)|].
      constructor; [cbn; lia|eapply Forall_impl; [|apply (derives_all_ge _ _ Hr)]; intros x Hx; cbn in *; lia].
  Qed.

  Theorem derivation_unique : forall t t' p,
      derives p t -> derives p t' -> first t = first t' -> others t = others t' -> t = t'.
  Proof.
    induction t as [a|o l IHl r IHr]; intros t' p D D' F Ot.
    - destruct t' as [a'|o' l' r']; cbn in *; [congruence|].
      destruct (others l'); discriminate.
    - destruct t' as [a'|o' l' r']; [cbn in Ot; destruct (others l); discriminate|].
      (* both roots are the weakest operator of the same list *)
      assert (Hq : prec o = prec o').
      { pose proof (root_prec_is_weakest _ _ _ _ D) as W. pose proof (root_prec_is_weakest _ _ _ _ D') as W'.
        unfold all_ge in W, W'. rewrite Forall_forall in W, W'.
        assert (I1 : In (o', first r') (others (Node A O o l r))).
        { rewrite Ot. cbn [Pratt.others]. apply in_or_app. right. left. reflexivity. }
        assert (I2 : In (o, first r) (others (Node A O o' l' r'))).
        { rewrite <- Ot. cbn [Pratt.others]. apply in_or_app. right. left. reflexivity. }
        specialize (W _ I1). specialize (W' _ I2). cbn in W, W'. lia. }
      pose proof (level_assoc _ _ Hq) as Ha.
      cbn [Pratt.derives] in D, D'. destruct D as [_ D]. destruct D' as [_ D'].
      cbn [Pratt.others Pratt.first] in Ot, F.
      rewrite <- Ha in D'. destruct (right_assoc o).
      + destruct D as [Dl Dr]. destruct D' as [Dl' Dr']. rewrite <- Hq in Dl', Dr'.
        destruct (split_unique_first _ _ _ _ _ _ Ot Hq
                    (derives_all_ge _ _ Dl) (derives_all_ge _ _ Dl')) as (E1 & E2 & E3).
        inversion E2; subst o'.
        rewrite (IHl l' _ Dl Dl' F E1). rewrite (IHr r' _ Dr Dr' H1 E3). reflexivity.
      + destruct D as [Dl Dr]. destruct D' as [Dl' Dr']. rewrite <- Hq in Dl', Dr'.
        destruct (split_unique_last _ _ _ _ _ _ Ot Hq
                    (derives_all_ge _ _ Dr) (derives_all_ge _ _ Dr')) as (E1 & E2 & E3).
        inversion E2; subst o'.
        rewrite (IHl l' _ Dl Dl' F E1). rewrite (IHr r' _ Dr Dr' H1 E3). reflexivity.
  Qed.
End Unique.
