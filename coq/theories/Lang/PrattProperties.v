(* C01 -- property theorems only (mechanism M3: operator chains are parsed by precedence). *)
From Coq Require Import String List Arith Bool.
From TsrunV Require Import Generated.FactsC01.
From TsrunV Require Import Lang.Pratt Lang.PrattProofs Lang.PrattUnique Lang.PrattInst.
Import ListNotations.

(* The precedence table the parser uses now (regenerated from
   Parser::current_binary_op on every run) orders the binary operator tokens
   exactly as the levels of the ECMAScript grammar do, and gives every token a
   precedence. *)
Theorem c01_precedence_table_is_ecmascript : table_agrees_with_ecmascript = true.
Proof. vm_compute. reflexivity. Qed.
Print Assumptions c01_precedence_table_is_ecmascript.

Lemma tok_level_assoc : forall o o', tok_prec o = tok_prec o' -> tok_right_assoc o = tok_right_assoc o'.
Proof. intros o o'; destruct o, o'; vm_compute; intros H; try reflexivity; discriminate H. Qed.

(* Every chain of operands and binary operators, of any length, is parsed (the
   loop terminates and consumes everything), the tree lists the operands and
   operators in source order, and it is a derivation of the stratified grammar:
   below an operator of precedence q the left operand holds only operators of
   precedence >= q and the right operand only operators of precedence > q
   (the other way round for the exponentiation operator). *)
Theorem c01_operator_chains_parse_by_precedence : forall (A : Type) (a : A) (rest : list (optok * A)),
  exists t, parse_chain A a rest = Some t /\
            derives A optok tok_prec tok_right_assoc 0 t /\ first A optok t = a /\ others A optok t = rest.
Proof.
  intros A a rest. destruct (parse_total A optok tok_prec tok_right_assoc tok_level_assoc a rest) as [t Ht].
  exists t. split; [exact Ht|]. exact (parse_sound A optok tok_prec tok_right_assoc tok_level_assoc a rest t Ht).
Qed.
Print Assumptions c01_operator_chains_parse_by_precedence.

(* ... and it is the only one: the stratified grammar is unambiguous, so any
   tree that is a derivation and lists the same operands and operators IS the
   parser's tree. The parser computes the ECMAScript parse of every chain. *)
Theorem c01_parse_is_the_only_derivation : forall (A : Type) (a : A) (rest : list (optok * A)) (t' : tree A optok),
  derives A optok tok_prec tok_right_assoc 0 t' -> first A optok t' = a -> others A optok t' = rest ->
  parse_chain A a rest = Some t'.
Proof.
  intros A a rest t' D' F' O'.
  destruct (c01_operator_chains_parse_by_precedence A a rest) as (t & Hp & D & F & Ot).
  rewrite Hp. f_equal.
  apply (derivation_unique A optok tok_prec tok_right_assoc tok_level_assoc t t' 0 D D'); congruence.
Qed.
Print Assumptions c01_parse_is_the_only_derivation.

(* non-vacuity: 1 + 2 x 3 ^ 4 ^ 5 - 6 < 7 and 8 or 9, written with the real tokens below *)
Theorem c01_pratt_witness :
  parse_chain nat 1 [(TPlus, 2); (TStar, 3); (TStarStar, 4); (TStarStar, 5); (TMinus, 6); (TLt, 7); (TAmpAmp, 8); (TPipePipe, 9)] =
  Some (Node _ _ TPipePipe
          (Node _ _ TAmpAmp
             (Node _ _ TLt
                (Node _ _ TMinus
                   (Node _ _ TPlus (Leaf _ _ 1)
                      (Node _ _ TStar (Leaf _ _ 2) (Node _ _ TStarStar (Leaf _ _ 3) (Node _ _ TStarStar (Leaf _ _ 4) (Leaf _ _ 5)))))
                   (Leaf _ _ 6))
                (Leaf _ _ 7))
             (Leaf _ _ 8))
          (Leaf _ _ 9)).
Proof. vm_compute. reflexivity. Qed.
Print Assumptions c01_pratt_witness.
