(* Proofs about Lang/Core.v: the compilation scheme preserves the source
   semantics, for every program of the core, every fuel and every meaning of
   the operators. *)
From Coq Require Import String ZArith Bool List Arith Lia.
From TsrunV Require Import Lang.Core.
Import ListNotations.

Section CoreProofs.
  Variable V : Type.
  Variable bop uop : Type.
  Variable bsem : bop -> V -> V -> V.
  Variable usem : uop -> V -> V.
  Variable typeof_sem : V -> V.
  Variable truthy : V -> bool.
  Variable nullish : V -> bool.
  Variable vundef vnull : V.
  Variable vbool : bool -> V.
  Variable vint : Z -> V.
  Variable vstr : string -> V.

  Notation expr := (expr bop uop).
  Notation stmt := (stmt bop uop).
  Notation op := (op bop uop).
  Notation env := (env V).
  Notation vm := (vm V).
  Notation eval := (eval V bop uop bsem usem typeof_sem truthy nullish vundef vnull vbool vint vstr).
  Notation exec := (exec V bop uop bsem usem typeof_sem truthy nullish vundef vnull vbool vint vstr).
  Notation exec_list := (exec_list V bop uop bsem usem typeof_sem truthy nullish vundef vnull vbool vint vstr).
  Notation run_source := (run_source V bop uop bsem usem typeof_sem truthy nullish vundef vnull vbool vint vstr).
  Notation vstep := (vstep V bop uop bsem usem typeof_sem truthy nullish vundef vnull vbool vint vstr).
  Notation vm_run := (vm_run V bop uop bsem usem typeof_sem truthy nullish vundef vnull vbool vint vstr).
  Notation cexpr := (@cexpr bop uop).
  Notation cstmt := (@cstmt bop uop).
  Notation deeper := Core.deeper.
  Notation cstmts := (@cstmts bop uop).
  Notation ccompile := (@ccompile bop uop).
  Notation mk := (Build_vm V).
  Notation upd := (upd V).
  Notation skip_jump := (skip_jump bop uop).
  Notation load_lit := (load_lit bop uop).

  (* ---------------- code fragments inside a program ---------------- *)
  Definition code_at (C : list op) (pc : nat) (c : list op) : Prop :=
    forall k i, nth_error c k = Some i -> nth_error C (pc + k) = Some i.

  Lemma code_at_app_l C pc c1 c2 : code_at C pc (c1 ++ c2) -> code_at C pc c1.
  Proof.
    intros H k i Hk. apply H. rewrite nth_error_app1; [exact Hk|].
    apply nth_error_Some. rewrite Hk. discriminate.
  Qed.
  Lemma code_at_app_r C pc c1 c2 : code_at C pc (c1 ++ c2) -> code_at C (pc + length c1) c2.
  Proof.
    intros H k i Hk. replace (pc + length c1 + k) with (pc + (length c1 + k)) by lia.
    apply H. rewrite nth_error_app2 by lia. replace (length c1 + k - length c1) with k by lia. exact Hk.
  Qed.
  Lemma code_at_head C pc i c : code_at C pc (i :: c) -> nth_error C pc = Some i.
  Proof. intros H. specialize (H 0 i eq_refl). rewrite Nat.add_0_r in H. exact H. Qed.
  Lemma code_at_tail C pc i c : code_at C pc (i :: c) -> code_at C (S pc) c.
  Proof. intros H k j Hk. replace (S pc + k) with (pc + S k) by lia. apply H. exact Hk. Qed.
  Lemma code_at_eq C pc pc' c : code_at C pc c -> pc = pc' -> code_at C pc' c.
  Proof. intros H E; subst; exact H. Qed.
  Lemma code_at_self C : code_at C 0 C.
  Proof. intros k i H. exact H. Qed.

  (* ---------------- runs of the machine ---------------- *)
  Inductive steps (C : list op) : vm -> vm -> Prop :=
  | steps_refl m : steps C m m
  | steps_step m m' m'' : vstep C m = VNext V m' -> steps C m' m'' -> steps C m m''.

  Lemma steps_trans C m1 m2 m3 : steps C m1 m2 -> steps C m2 m3 -> steps C m1 m3.
  Proof. induction 1; intros; [assumption|]. eapply steps_step; eauto. Qed.
  Lemma steps_one C m m' : vstep C m = VNext V m' -> steps C m m'.
  Proof. intros. eapply steps_step; [eassumption|apply steps_refl]. Qed.
  Lemma steps_eq C m1 m2 m2' : steps C m1 m2 -> m2 = m2' -> steps C m1 m2'.
  Proof. intros H E; subst; exact H. Qed.

  Definition fails (C : list op) (m : vm) (e : err) : Prop :=
    exists m', steps C m m' /\ vstep C m' = VError V e.
  Lemma fails_after C m1 m2 e : steps C m1 m2 -> fails C m2 e -> fails C m1 e.
  Proof. intros H [m' [H1 H2]]. exists m'. split; [eapply steps_trans; eauto|exact H2]. Qed.

  Lemma vm_run_steps C m m' : steps C m m' ->
    forall k out, vm_run k C m' = Some out -> exists k', vm_run k' C m = Some out.
  Proof.
    induction 1 as [m|m m1 m2 Hs _ IH]; intros k out Hr.
    - exists k; exact Hr.
    - destruct (IH k out Hr) as [k' Hk']. exists (S k'). cbn [Core.vm_run]. rewrite Hs. exact Hk'.
  Qed.

  (* one instruction *)
  Ltac step_with H :=
    eapply steps_step; [unfold Core.vstep; cbn [pc_of regs_of env_of]; rewrite H; reflexivity|].

  Lemma upd_same (rs : nat -> V) d v : upd rs d v d = v.
  Proof. unfold Core.upd. rewrite Nat.eqb_refl. reflexivity. Qed.
  Lemma upd_other (rs : nat -> V) d v r : r <> d -> upd rs d v r = rs r.
  Proof. unfold Core.upd. intros H. destruct (Nat.eqb_spec r d); [contradiction|reflexivity]. Qed.

  Lemma alloc_some next r : alloc next = Some r -> r = next.
  Proof. unfold alloc. destruct (next <? max_reg); congruence. Qed.

  (* ---------------- expressions ---------------- *)
  Definition expr_ok (C : list op) (e : expr) (dst next pc : nat) (c : list op) : Prop :=
    forall rs en,
      match eval e en with
      | (Val _ v, en') =>
          exists rs', steps C (mk pc rs en) (mk (pc + length c) rs' en')
                      /\ rs' dst = v /\ (forall r, r < next -> r <> dst -> rs' r = rs r)
      | (Thrown _ er, _) => fails C (mk pc rs en) er
      end.

  Lemma short_jump_taken C (o : lop) pc dst t rs en :
    nth_error C pc = Some (skip_jump o dst t) ->
    short_circuits V truthy nullish o (rs dst) = true ->
    steps C (mk pc rs en) (mk t rs en).
  Proof.
    intros Hn Hs. apply steps_one. unfold Core.vstep; cbn [pc_of regs_of env_of]. rewrite Hn.
    destruct o; cbn in *.
    - destruct (truthy (rs dst)); [discriminate|reflexivity].
    - rewrite Hs. reflexivity.
    - destruct (nullish (rs dst)); [discriminate|reflexivity].
  Qed.
  Lemma short_jump_not_taken C (o : lop) pc dst t rs en :
    nth_error C pc = Some (skip_jump o dst t) ->
    short_circuits V truthy nullish o (rs dst) = false ->
    steps C (mk pc rs en) (mk (S pc) rs en).
  Proof.
    intros Hn Hs. apply steps_one. unfold Core.vstep; cbn [pc_of regs_of env_of]. rewrite Hn.
    destruct o; cbn in *.
    - destruct (truthy (rs dst)); [reflexivity|discriminate].
    - rewrite Hs. reflexivity.
    - destruct (nullish (rs dst)); [reflexivity|discriminate].
  Qed.

  Lemma cexpr_correct : forall e dst next pc c C,
      cexpr e dst next pc = Some c -> code_at C pc c -> dst < next -> expr_ok C e dst next pc c.
  Proof.
    induction e as [l|x|o a IHa b IHb|o a IHa|a IHa|x|o a IHa b IHb|c0 IHc a IHa b IHb|x a IHa|o x a IHa|o x a IHa];
      intros dst next pc c C Hc Hat Hlt rs en; cbn [Core.cexpr] in Hc.
    - (* literal *)
      inversion Hc; subst c; clear Hc. cbn [Core.eval].
      pose proof (code_at_head _ _ _ _ Hat) as Hn.
      exists (upd rs dst (lit_val V vundef vnull vbool vint vstr l)). split; [|split].
      + apply steps_one. unfold Core.vstep; cbn [pc_of regs_of env_of]. rewrite Hn.
        replace (pc + length [load_lit l dst]) with (S pc) by (cbn; lia).
        destruct l as [| |b0|z|s]; cbn [load_lit lit_val]; try reflexivity.
        destruct ((-128 <=? z) && (z <=? 127))%Z; reflexivity.
      + apply upd_same.
      + intros r _ Hr. apply upd_other; exact Hr.
    - (* variable *)
      inversion Hc; subst c; clear Hc. cbn [Core.eval].
      pose proof (code_at_head _ _ _ _ Hat) as Hn.
      destruct (lookup V x en) as [v|] eqn:El.
      + exists (upd rs dst v). split; [|split].
        * apply steps_one. unfold Core.vstep; cbn [pc_of regs_of env_of]. rewrite Hn, El.
          replace (pc + length [OGetVar bop uop dst x]) with (S pc) by (cbn; lia). reflexivity.
        * apply upd_same.
        * intros r _ Hr. apply upd_other; exact Hr.
      + exists (mk pc rs en). split; [apply steps_refl|].
        unfold Core.vstep; cbn [pc_of regs_of env_of]. rewrite Hn, El. reflexivity.
    - (* binary *)
      destruct (alloc next) as [l|] eqn:Al; [|discriminate]. apply alloc_some in Al; subst l.
      destruct (cexpr a next (S next) pc) as [ca|] eqn:Ca; [|discriminate].
      destruct (alloc (S next)) as [r|] eqn:Ar; [|discriminate]. apply alloc_some in Ar; subst r.
      destruct (cexpr b (S next) (S (S next)) (pc + length ca)) as [cb|] eqn:Cb; [|discriminate].
      inversion Hc; subst c; clear Hc.
      pose proof (code_at_app_l _ _ _ _ Hat) as Hat_a.
      pose proof (code_at_app_r _ _ _ _ Hat) as Hat_r.
      pose proof (code_at_app_l _ _ _ _ Hat_r) as Hat_b.
      pose proof (code_at_app_r _ _ _ _ Hat_r) as Hat_o.
      pose proof (code_at_head _ _ _ _ Hat_o) as Hn.
      specialize (IHa next (S next) pc ca C Ca Hat_a (Nat.lt_succ_diag_r _) rs en).
      cbn [Core.eval]. destruct (eval a en) as [[va|er] en1] eqn:Ea.
      + destruct IHa as [rs1 [S1 [R1 P1]]].
        specialize (IHb (S next) (S (S next)) (pc + length ca) cb C Cb Hat_b (Nat.lt_succ_diag_r _) rs1 en1).
        destruct (eval b en1) as [[vb|er] en2] eqn:Eb.
        * destruct IHb as [rs2 [S2 [R2 P2]]].
          exists (upd rs2 dst (bsem o va vb)). split; [|split].
          -- eapply steps_trans; [exact S1|]. eapply steps_trans; [exact S2|].
             apply steps_one. unfold Core.vstep; cbn [pc_of regs_of env_of]. rewrite Hn.
             rewrite R2. rewrite (P2 next) by lia. rewrite R1.
             rewrite !app_length. cbn [length]. f_equal. f_equal. lia.
          -- apply upd_same.
          -- intros r Hr Hd. rewrite upd_other by exact Hd. rewrite P2 by lia. apply P1; lia.
        * eapply fails_after; [exact S1|exact IHb].
      + exact IHa.
    - (* unary *)
      destruct (alloc next) as [s|] eqn:Al; [|discriminate]. apply alloc_some in Al; subst s.
      destruct (cexpr a next (S next) pc) as [ca|] eqn:Ca; [|discriminate].
      inversion Hc; subst c; clear Hc.
      pose proof (code_at_app_l _ _ _ _ Hat) as Hat_a.
      pose proof (code_at_head _ _ _ _ (code_at_app_r _ _ _ _ Hat)) as Hn.
      specialize (IHa next (S next) pc ca C Ca Hat_a (Nat.lt_succ_diag_r _) rs en).
      cbn [Core.eval]. destruct (eval a en) as [[va|er] en1] eqn:Ea; [|exact IHa].
      destruct IHa as [rs1 [S1 [R1 P1]]].
      exists (upd rs1 dst (usem o va)). split; [|split].
      + eapply steps_trans; [exact S1|]. apply steps_one.
        unfold Core.vstep; cbn [pc_of regs_of env_of]. rewrite Hn, R1.
        rewrite app_length. cbn [length]. f_equal. f_equal. lia.
      + apply upd_same.
      + intros r Hr Hd. rewrite upd_other by exact Hd. apply P1; lia.
    - (* typeof e *)
      destruct (alloc next) as [s|] eqn:Al; [|discriminate]. apply alloc_some in Al; subst s.
      destruct (cexpr a next (S next) pc) as [ca|] eqn:Ca; [|discriminate].
      inversion Hc; subst c; clear Hc.
      pose proof (code_at_app_l _ _ _ _ Hat) as Hat_a.
      pose proof (code_at_head _ _ _ _ (code_at_app_r _ _ _ _ Hat)) as Hn.
      specialize (IHa next (S next) pc ca C Ca Hat_a (Nat.lt_succ_diag_r _) rs en).
      cbn [Core.eval]. destruct (eval a en) as [[va|er] en1] eqn:Ea; [|exact IHa].
      destruct IHa as [rs1 [S1 [R1 P1]]].
      exists (upd rs1 dst (typeof_sem va)). split; [|split].
      + eapply steps_trans; [exact S1|]. apply steps_one.
        unfold Core.vstep; cbn [pc_of regs_of env_of]. rewrite Hn, R1.
        rewrite app_length. cbn [length]. f_equal. f_equal. lia.
      + apply upd_same.
      + intros r Hr Hd. rewrite upd_other by exact Hd. apply P1; lia.
    - (* typeof x *)
      destruct (alloc next) as [s|] eqn:Al; [|discriminate]. apply alloc_some in Al; subst s.
      inversion Hc; subst c; clear Hc.
      pose proof (code_at_head _ _ _ _ Hat) as Hn1.
      pose proof (code_at_head _ _ _ _ (code_at_tail _ _ _ _ Hat)) as Hn2.
      cbn [Core.eval].
      set (v := match lookup V x en with Some v => v | None => vundef end).
      exists (upd (upd rs next v) dst (typeof_sem v)). split; [|split].
      + eapply steps_step.
        { unfold Core.vstep; cbn [pc_of regs_of env_of]. rewrite Hn1. reflexivity. }
        apply steps_one. unfold Core.vstep; cbn [pc_of regs_of env_of]. rewrite Hn2.
        fold v. rewrite upd_same. cbn [length]. f_equal. f_equal. lia.
      + apply upd_same.
      + intros r Hr Hd. rewrite upd_other by exact Hd. apply upd_other. lia.
    - (* logical *)
      destruct (cexpr a dst next pc) as [ca|] eqn:Ca; [|discriminate].
      destruct (cexpr b dst next (pc + length ca + 1)) as [cb|] eqn:Cb; [|discriminate].
      inversion Hc; subst c; clear Hc.
      pose proof (code_at_app_l _ _ _ _ Hat) as Hat_a.
      pose proof (code_at_app_r _ _ _ _ Hat) as Hat_r.
      pose proof (code_at_head _ _ _ _ Hat_r) as Hn.
      pose proof (code_at_tail _ _ _ _ Hat_r) as Hat_b.
      apply (code_at_eq _ _ (pc + length ca + 1)) in Hat_b; [|lia].
      specialize (IHa dst next pc ca C Ca Hat_a Hlt rs en).
      cbn [Core.eval]. destruct (eval a en) as [[va|er] en1] eqn:Ea; [|exact IHa].
      destruct IHa as [rs1 [S1 [R1 P1]]].
      destruct (short_circuits V truthy nullish o va) eqn:Esc.
      + exists rs1. split; [|split; [exact R1|exact P1]].
        eapply steps_trans; [exact S1|].
        eapply steps_eq; [eapply short_jump_taken; [exact Hn|rewrite R1; exact Esc]|].
        f_equal. rewrite !app_length. cbn [length]. lia.
      + specialize (IHb dst next (pc + length ca + 1) cb C Cb Hat_b Hlt rs1 en1).
        assert (S0 : steps C (mk pc rs en) (mk (pc + length ca + 1) rs1 en1)).
        { eapply steps_trans; [exact S1|].
          eapply steps_eq; [eapply short_jump_not_taken; [exact Hn|rewrite R1; exact Esc]|]. f_equal. lia. }
        destruct (eval b en1) as [[vb|er] en2] eqn:Eb.
        * destruct IHb as [rs2 [S2 [R2 P2]]].
          exists rs2. split; [|split; [exact R2|]].
          -- eapply steps_trans; [exact S0|]. eapply steps_eq; [exact S2|].
             f_equal. rewrite !app_length. cbn [length]. lia.
          -- intros r Hr Hd. rewrite P2 by assumption. apply P1; assumption.
        * eapply fails_after; [exact S0|exact IHb].
    - (* conditional *)
      destruct (alloc next) as [t|] eqn:Al; [|discriminate]. apply alloc_some in Al; subst t.
      destruct (cexpr c0 next (S next) pc) as [cc|] eqn:Cc; [|discriminate].
      destruct (cexpr a dst next (pc + length cc + 1)) as [ca|] eqn:Ca; [|discriminate].
      destruct (cexpr b dst next (pc + length cc + 1 + length ca + 1)) as [cb|] eqn:Cb; [|discriminate].
      inversion Hc; subst c; clear Hc.
      pose proof (code_at_app_l _ _ _ _ Hat) as Hat_c.
      pose proof (code_at_app_r _ _ _ _ Hat) as Hat_r1.
      pose proof (code_at_head _ _ _ _ Hat_r1) as Hn1.
      pose proof (code_at_tail _ _ _ _ Hat_r1) as Hat_r2.
      pose proof (code_at_app_l _ _ _ _ Hat_r2) as Hat_a.
      apply (code_at_eq _ _ (pc + length cc + 1)) in Hat_a; [|lia].
      pose proof (code_at_app_r _ _ _ _ Hat_r2) as Hat_r3.
      pose proof (code_at_head _ _ _ _ Hat_r3) as Hn2.
      pose proof (code_at_tail _ _ _ _ Hat_r3) as Hat_b.
      apply (code_at_eq _ _ (pc + length cc + 1 + length ca + 1)) in Hat_b; [|lia].
      specialize (IHc next (S next) pc cc C Cc Hat_c (Nat.lt_succ_diag_r _) rs en).
      cbn [Core.eval]. destruct (eval c0 en) as [[vc|er] en1] eqn:Ec; [|exact IHc].
      destruct IHc as [rs1 [S1 [R1 P1]]].
      destruct (truthy vc) eqn:Et.
      + assert (S0 : steps C (mk pc rs en) (mk (pc + length cc + 1) rs1 en1)).
        { eapply steps_trans; [exact S1|]. apply steps_one.
          unfold Core.vstep; cbn [pc_of regs_of env_of]. rewrite Hn1, R1, Et. f_equal. f_equal. lia. }
        specialize (IHa dst next (pc + length cc + 1) ca C Ca Hat_a Hlt rs1 en1).
        destruct (eval a en1) as [[va|er] en2] eqn:Ea.
        * destruct IHa as [rs2 [S2 [R2 P2]]].
          exists rs2. split; [|split; [exact R2|]].
          -- eapply steps_trans; [exact S0|]. eapply steps_trans; [exact S2|]. apply steps_one.
             unfold Core.vstep; cbn [pc_of regs_of env_of].
             replace (pc + length cc + 1 + length ca) with (S (pc + length cc) + length ca) by lia.
             rewrite Hn2. f_equal. f_equal. rewrite !app_length. cbn [length]. rewrite !app_length. cbn [length]. lia.
          -- intros r Hr Hd. rewrite P2 by assumption. apply P1; lia.
        * eapply fails_after; [exact S0|exact IHa].
      + assert (S0 : steps C (mk pc rs en) (mk (pc + length cc + 1 + length ca + 1) rs1 en1)).
        { eapply steps_trans; [exact S1|]. apply steps_one.
          unfold Core.vstep; cbn [pc_of regs_of env_of]. rewrite Hn1, R1, Et. reflexivity. }
        specialize (IHb dst next (pc + length cc + 1 + length ca + 1) cb C Cb Hat_b Hlt rs1 en1).
        destruct (eval b en1) as [[vb|er] en2] eqn:Eb.
        * destruct IHb as [rs2 [S2 [R2 P2]]].
          exists rs2. split; [|split; [exact R2|]].
          -- eapply steps_trans; [exact S0|]. eapply steps_eq; [exact S2|].
             f_equal. rewrite !app_length. cbn [length]. rewrite !app_length. cbn [length]. lia.
          -- intros r Hr Hd. rewrite P2 by assumption. apply P1; lia.
        * eapply fails_after; [exact S0|exact IHb].
    - (* assignment *)
      destruct (cexpr a dst next pc) as [ca|] eqn:Ca; [|discriminate].
      inversion Hc; subst c; clear Hc.
      pose proof (code_at_app_l _ _ _ _ Hat) as Hat_a.
      pose proof (code_at_head _ _ _ _ (code_at_app_r _ _ _ _ Hat)) as Hn.
      specialize (IHa dst next pc ca C Ca Hat_a Hlt rs en).
      cbn [Core.eval]. destruct (eval a en) as [[va|er] en1] eqn:Ea; [|exact IHa].
      destruct IHa as [rs1 [S1 [R1 P1]]].
      destruct (assign V x va en1) as [en2|er] eqn:Eas.
      + exists rs1. split; [|split; [exact R1|exact P1]].
        eapply steps_trans; [exact S1|]. apply steps_one.
        unfold Core.vstep; cbn [pc_of regs_of env_of]. rewrite Hn, R1, Eas.
        rewrite app_length. cbn [length]. f_equal. f_equal. lia.
      + exists (mk (pc + length ca) rs1 en1). split; [exact S1|].
        unfold Core.vstep; cbn [pc_of regs_of env_of]. rewrite Hn, R1, Eas. reflexivity.
    - (* compound assignment *)
      destruct (alloc next) as [r0|] eqn:Al; [|discriminate]. apply alloc_some in Al; subst r0.
      destruct (cexpr a next (S next) (pc + 1)) as [ca|] eqn:Ca; [|discriminate].
      inversion Hc; subst c; clear Hc.
      pose proof (code_at_head _ _ _ _ Hat) as Hn1.
      pose proof (code_at_tail _ _ _ _ Hat) as Hat_r.
      cbn [app] in Hat_r.
      pose proof (code_at_app_l _ _ _ _ Hat_r) as Hat_a.
      apply (code_at_eq _ _ (pc + 1)) in Hat_a; [|lia].
      pose proof (code_at_app_r _ _ _ _ Hat_r) as Hat_o.
      pose proof (code_at_head _ _ _ _ Hat_o) as Hn2.
      pose proof (code_at_head _ _ _ _ (code_at_tail _ _ _ _ Hat_o)) as Hn3.
      cbn [Core.eval]. destruct (lookup V x en) as [cur|] eqn:El.
      2:{ exists (mk pc rs en). split; [apply steps_refl|].
          unfold Core.vstep; cbn [pc_of regs_of env_of]. rewrite Hn1, El. reflexivity. }
      assert (S0 : steps C (mk pc rs en) (mk (pc + 1) (upd rs dst cur) en)).
      { apply steps_one. unfold Core.vstep; cbn [pc_of regs_of env_of]. rewrite Hn1, El. f_equal. f_equal. lia. }
      specialize (IHa next (S next) (pc + 1) ca C Ca Hat_a (Nat.lt_succ_diag_r _) (upd rs dst cur) en).
      destruct (eval a en) as [[va|er] en1] eqn:Ea.
      2:{ eapply fails_after; [exact S0|exact IHa]. }
      destruct IHa as [rs1 [S1 [R1 P1]]].
      assert (Hd : rs1 dst = cur). { rewrite P1 by lia. apply upd_same. }
      set (v := bsem o cur va).
      assert (S2 : steps C (mk pc rs en) (mk (S (S pc + length ca)) (upd rs1 dst v) en1)).
      { eapply steps_trans; [exact S0|]. eapply steps_trans; [exact S1|]. apply steps_one.
        unfold Core.vstep; cbn [pc_of regs_of env_of].
        replace (pc + 1 + length ca) with (S pc + length ca) by lia. rewrite Hn2, Hd, R1. reflexivity. }
      destruct (assign V x v en1) as [en2|er] eqn:Eas.
      + exists (upd rs1 dst v). split; [|split].
        * eapply steps_trans; [exact S2|]. apply steps_one.
          unfold Core.vstep; cbn [pc_of regs_of env_of]. rewrite Hn3, upd_same, Eas.
          f_equal. f_equal. cbn [app length]. rewrite app_length. cbn [length]. lia.
        * apply upd_same.
        * intros r Hr Hne. rewrite upd_other by exact Hne. rewrite P1 by lia. apply upd_other; exact Hne.
      + exists (mk (S (S pc + length ca)) (upd rs1 dst v) en1). split; [exact S2|].
        unfold Core.vstep; cbn [pc_of regs_of env_of]. rewrite Hn3, upd_same, Eas. reflexivity.
    - (* logical assignment *)
      destruct (cexpr a dst next (pc + 2)) as [ca|] eqn:Ca; [|discriminate].
      inversion Hc; subst c; clear Hc.
      pose proof (code_at_head _ _ _ _ Hat) as Hn1.
      pose proof (code_at_tail _ _ _ _ Hat) as Hat_r. cbn [app] in Hat_r.
      pose proof (code_at_head _ _ _ _ Hat_r) as Hn2.
      pose proof (code_at_tail _ _ _ _ Hat_r) as Hat_r2.
      pose proof (code_at_app_l _ _ _ _ Hat_r2) as Hat_a.
      apply (code_at_eq _ _ (pc + 2)) in Hat_a; [|lia].
      pose proof (code_at_head _ _ _ _ (code_at_app_r _ _ _ _ Hat_r2)) as Hn3.
      cbn [Core.eval]. destruct (lookup V x en) as [cur|] eqn:El.
      2:{ exists (mk pc rs en). split; [apply steps_refl|].
          unfold Core.vstep; cbn [pc_of regs_of env_of]. rewrite Hn1, El. reflexivity. }
      assert (S0 : steps C (mk pc rs en) (mk (S pc) (upd rs dst cur) en)).
      { apply steps_one. unfold Core.vstep; cbn [pc_of regs_of env_of]. rewrite Hn1, El. reflexivity. }
      destruct (short_circuits V truthy nullish o cur) eqn:Esc.
      + exists (upd rs dst cur). split; [|split].
        * eapply steps_trans; [exact S0|].
          eapply steps_eq; [eapply short_jump_taken; [exact Hn2|rewrite upd_same; exact Esc]|].
          f_equal. cbn [app length]. rewrite app_length. cbn [length]. lia.
        * apply upd_same.
        * intros r _ Hne. apply upd_other; exact Hne.
      + assert (S1 : steps C (mk pc rs en) (mk (pc + 2) (upd rs dst cur) en)).
        { eapply steps_trans; [exact S0|].
          eapply steps_eq; [eapply short_jump_not_taken; [exact Hn2|rewrite upd_same; exact Esc]|]. f_equal. lia. }
        specialize (IHa dst next (pc + 2) ca C Ca Hat_a Hlt (upd rs dst cur) en).
        destruct (eval a en) as [[va|er] en1] eqn:Ea.
        2:{ eapply fails_after; [exact S1|exact IHa]. }
        destruct IHa as [rs1 [S2 [R1 P1]]].
        destruct (assign V x va en1) as [en2|er] eqn:Eas.
        * exists rs1. split; [|split; [exact R1|]].
          -- eapply steps_trans; [exact S1|]. eapply steps_trans; [exact S2|]. apply steps_one.
             unfold Core.vstep; cbn [pc_of regs_of env_of].
             replace (pc + 2 + length ca) with (S (S pc) + length ca) by lia.
             rewrite Hn3, R1, Eas. f_equal. f_equal. cbn [app length]. rewrite app_length. cbn [length]. lia.
          -- intros r Hr Hne. rewrite P1 by assumption. apply upd_other; exact Hne.
        * exists (mk (pc + 2 + length ca) rs1 en1). split; [eapply steps_trans; [exact S1|exact S2]|].
          unfold Core.vstep; cbn [pc_of regs_of env_of].
          replace (pc + 2 + length ca) with (S (S pc) + length ca) by lia.
          rewrite Hn3, R1, Eas. reflexivity.
  Qed.

  (* ---------------- sizes ---------------- *)
  Lemma cexpr_length : forall e dst next pc c, cexpr e dst next pc = Some c -> length c = esize bop uop e.
  Proof.
    induction e as [l|x|o a IHa b IHb|o a IHa|a IHa|x|o a IHa b IHb|c0 IHc a IHa b IHb|x a IHa|o x a IHa|o x a IHa];
      intros dst next pc c Hc; cbn [Core.cexpr Core.esize] in *.
    - inversion Hc; reflexivity.
    - inversion Hc; reflexivity.
    - destruct (alloc next) as [l|]; [|discriminate].
      destruct (cexpr a l (S next) pc) as [ca|] eqn:Ca; [|discriminate].
      destruct (alloc (S next)) as [r|]; [|discriminate].
      destruct (cexpr b r (S (S next)) (pc + length ca)) as [cb|] eqn:Cb; [|discriminate].
      inversion Hc; subst c. rewrite !app_length. cbn [length]. rewrite (IHa _ _ _ _ Ca), (IHb _ _ _ _ Cb). lia.
    - destruct (alloc next) as [l|]; [|discriminate].
      destruct (cexpr a l (S next) pc) as [ca|] eqn:Ca; [|discriminate].
      inversion Hc; subst c. rewrite !app_length. cbn [length]. rewrite (IHa _ _ _ _ Ca). lia.
    - destruct (alloc next) as [l|]; [|discriminate].
      destruct (cexpr a l (S next) pc) as [ca|] eqn:Ca; [|discriminate].
      inversion Hc; subst c. rewrite !app_length. cbn [length]. rewrite (IHa _ _ _ _ Ca). lia.
    - destruct (alloc next) as [l|]; [|discriminate]. inversion Hc; reflexivity.
    - destruct (cexpr a dst next pc) as [ca|] eqn:Ca; [|discriminate].
      destruct (cexpr b dst next (pc + length ca + 1)) as [cb|] eqn:Cb; [|discriminate].
      inversion Hc; subst c. rewrite !app_length. cbn [length]. rewrite (IHa _ _ _ _ Ca), (IHb _ _ _ _ Cb). lia.
    - destruct (alloc next) as [t|]; [|discriminate].
      destruct (cexpr c0 t (S next) pc) as [cc|] eqn:Cc; [|discriminate].
      destruct (cexpr a dst next (pc + length cc + 1)) as [ca|] eqn:Ca; [|discriminate].
      destruct (cexpr b dst next (pc + length cc + 1 + length ca + 1)) as [cb|] eqn:Cb; [|discriminate].
      inversion Hc; subst c. rewrite !app_length. cbn [length]. rewrite !app_length. cbn [length].
      rewrite (IHc _ _ _ _ Cc), (IHa _ _ _ _ Ca), (IHb _ _ _ _ Cb). lia.
    - destruct (cexpr a dst next pc) as [ca|] eqn:Ca; [|discriminate].
      inversion Hc; subst c. rewrite !app_length. cbn [length]. rewrite (IHa _ _ _ _ Ca). lia.
    - destruct (alloc next) as [r|]; [|discriminate].
      destruct (cexpr a r (S next) (pc + 1)) as [ca|] eqn:Ca; [|discriminate].
      inversion Hc; subst c. cbn [app length]. rewrite !app_length. cbn [length]. rewrite (IHa _ _ _ _ Ca). lia.
    - destruct (cexpr a dst next (pc + 2)) as [ca|] eqn:Ca; [|discriminate].
      inversion Hc; subst c. cbn [app length]. rewrite !app_length. cbn [length]. rewrite (IHa _ _ _ _ Ca). lia.
  Qed.

  (* ---------------- statements ---------------- *)
  Notation loopctx := Core.loopctx.
  Notation popn := (fun k (en : env) => Nat.iter k (pop V) en).

  Definition stmt_ok (C : list op) (r : option (sres V)) (lc : option loopctx) (pc : nat) (c : list op)
             (rs : nat -> V) (en : env) : Prop :=
    match r with
    | None => True
    | Some (SNormal _ en') => exists rs', steps C (mk pc rs en) (mk (pc + length c) rs' en')
    | Some (SBroke _ en') =>
        match lc with
        | Some l => exists rs', steps C (mk pc rs en) (mk (lc_break l) rs' (popn (lc_scopes l) en'))
        | None => False
        end
    | Some (SContinued _ en') =>
        match lc with
        | Some l => exists rs', steps C (mk pc rs en) (mk (lc_continue l) rs' (popn (lc_scopes l) en'))
        | None => False
        end
    | Some (SThrown _ er) => fails C (mk pc rs en) er
    end.

  (* the body of a block: the inner loop of compile_block / of exec *)
  Definition cblock (lc : option loopctx) (next : nat) :=
    fix go (l : list stmt) (pc0 : nat) : option (list op) :=
      match l with
      | [] => Some []
      | s1 :: r => match cstmt s1 (deeper lc) next pc0 with None => None | Some c1 =>
                   match go r (pc0 + length c1) with None => None | Some cr => Some (c1 ++ cr) end end
      end.
  Definition eblock (f : nat) :=
    fix go (l : list stmt) (en0 : env) : option (sres V) :=
      match l with
      | [] => Some (SNormal V (pop V en0))
      | s1 :: r => match exec f s1 en0 with
                   | Some (SNormal _ en1) => go r en1
                   | Some (SBroke _ en1) => Some (SBroke V (pop V en1))
                   | Some (SContinued _ en1) => Some (SContinued V (pop V en1))
                   | other => other
                   end
      end.
  Definition sblock :=
    fix go (l : list stmt) : nat := match l with [] => 0 | s1 :: r => ssize bop uop s1 + go r end.

  Lemma cstmt_length : forall s lc next pc c, cstmt s lc next pc = Some c -> length c = ssize bop uop s.
  Proof.
    fix IH 1. intros s lc next pc c Hc. destruct s as [e|m x e|body|c0 t e|c0 body| | |]; cbn [Core.cstmt Core.ssize] in *.
    - destruct (alloc next) as [d|]; [|discriminate]. eapply cexpr_length; eassumption.
    - destruct (alloc next) as [d|]; [|discriminate].
      destruct (cexpr e d (S next) pc) as [ce|] eqn:Ce; [|discriminate]. inversion Hc; subst c.
      rewrite app_length. cbn [length]. rewrite (cexpr_length _ _ _ _ _ Ce). reflexivity.
    - fold (cblock lc next) in Hc. fold sblock.
      destruct (cblock lc next body (pc + 1)) as [cb|] eqn:Cb; [|discriminate]. inversion Hc; subst c.
      cbn [app length]. rewrite app_length. cbn [length].
      assert (G : forall l pc0 cl, cblock lc next l pc0 = Some cl -> length cl = sblock l).
      { induction l as [|s1 l IHl]; intros pc0 cl Hl; cbn [cblock sblock] in *.
        - inversion Hl; reflexivity.
        - fold (cblock lc next) in Hl.
          destruct (cstmt s1 (deeper lc) next pc0) as [c1|] eqn:C1; [|discriminate].
          destruct (cblock lc next l (pc0 + length c1)) as [cr|] eqn:Cr; [|discriminate].
          inversion Hl; subst cl. rewrite app_length. rewrite (IH _ _ _ _ _ C1), (IHl _ _ Cr). reflexivity. }
      rewrite (G _ _ _ Cb). lia.
    - destruct (alloc next) as [tr|]; [|discriminate].
      destruct (cexpr c0 tr (S next) pc) as [cc|] eqn:Cc; [|discriminate].
      destruct (cstmt t lc next (pc + length cc + 1)) as [ct|] eqn:Ct; [|discriminate].
      destruct e as [s2|].
      + destruct (cstmt s2 lc next (pc + length cc + 1 + length ct + 1)) as [ce|] eqn:Ce; [|discriminate].
        inversion Hc; subst c. rewrite !app_length. cbn [length]. rewrite !app_length. cbn [length].
        rewrite (cexpr_length _ _ _ _ _ Cc), (IH _ _ _ _ _ Ct), (IH _ _ _ _ _ Ce). lia.
      + inversion Hc; subst c. rewrite !app_length. cbn [length].
        rewrite (cexpr_length _ _ _ _ _ Cc), (IH _ _ _ _ _ Ct). lia.
    - destruct (alloc next) as [tr|]; [|discriminate].
      destruct (cexpr c0 tr (S next) pc) as [cc|] eqn:Cc; [|discriminate].
      match type of Hc with context [cstmt body ?l next ?p] => destruct (cstmt body l next p) as [cb|] eqn:Cb; [|discriminate] end.
      inversion Hc; subst c. rewrite !app_length. cbn [length]. rewrite !app_length. cbn [length].
      rewrite (cexpr_length _ _ _ _ _ Cc), (IH _ _ _ _ _ Cb). lia.
    - destruct lc; [|discriminate]. inversion Hc; reflexivity.
    - destruct lc; [|discriminate]. inversion Hc; reflexivity.
    - inversion Hc; reflexivity.
  Qed.

  Lemma iter_shift (A : Type) (g : A -> A) k x : Nat.iter k g (g x) = Nat.iter (S k) g x.
  Proof. induction k as [|k IHk]; [reflexivity|]. simpl. rewrite IHk. reflexivity. Qed.
  Lemma popn_pop k (en : env) : popn k (pop V en) = popn (S k) en.
  Proof. apply iter_shift. Qed.

  Lemma cstmt_correct : forall fuel s lc next pc c C rs en,
      cstmt s lc next pc = Some c -> code_at C pc c -> stmt_ok C (exec fuel s en) lc pc c rs en.
  Proof.
    induction fuel as [|f IH]; intros s lc next pc c C rs en Hc Hat; [exact I|].
    destruct s as [e|m x e|body|c0 t e|c0 body| | |].
    - (* expression statement *)
      cbn [Core.cstmt] in Hc. destruct (alloc next) as [d|] eqn:Al; [|discriminate]. apply alloc_some in Al; subst d.
      pose proof (cexpr_correct e next (S next) pc c C Hc Hat (Nat.lt_succ_diag_r _) rs en) as He.
      cbn [Core.exec]. destruct (eval e en) as [[v|er] en1]; cbn [stmt_ok].
      + destruct He as [rs1 [S1 _]]. exists rs1. exact S1.
      + exact He.
    - (* declaration *)
      cbn [Core.cstmt] in Hc. destruct (alloc next) as [d|] eqn:Al; [|discriminate]. apply alloc_some in Al; subst d.
      destruct (cexpr e next (S next) pc) as [ce|] eqn:Ce; [|discriminate]. inversion Hc; subst c; clear Hc.
      pose proof (code_at_app_l _ _ _ _ Hat) as Hat_e.
      pose proof (code_at_head _ _ _ _ (code_at_app_r _ _ _ _ Hat)) as Hn.
      pose proof (cexpr_correct e next (S next) pc ce C Ce Hat_e (Nat.lt_succ_diag_r _) rs en) as He.
      cbn [Core.exec]. destruct (eval e en) as [[v|er] en1]; cbn [stmt_ok]; [|exact He].
      destruct He as [rs1 [S1 [R1 _]]]. exists rs1.
      eapply steps_trans; [exact S1|]. apply steps_one.
      unfold Core.vstep; cbn [pc_of regs_of env_of]. rewrite Hn, R1.
      rewrite app_length. cbn [length]. f_equal. f_equal. lia.
    - (* block *)
      cbn [Core.cstmt] in Hc. fold (cblock lc next) in Hc.
      destruct (cblock lc next body (pc + 1)) as [cb|] eqn:Cb; [|discriminate]. inversion Hc; subst c; clear Hc.
      pose proof (code_at_head _ _ _ _ Hat) as Hn1.
      pose proof (code_at_tail _ _ _ _ Hat) as Hat_r.
      pose proof (code_at_app_l _ _ _ _ Hat_r) as Hat_b.
      apply (code_at_eq _ _ (pc + 1)) in Hat_b; [|lia].
      pose proof (code_at_head _ _ _ _ (code_at_app_r _ _ _ _ Hat_r)) as Hn2.
      cbn [Core.exec]. fold (eblock f).
      (* inside the block: normal completion reaches the end of the body with the scope still open;
         break / continue have already left all scopes up to the loop *)
      assert (Hblock : forall l pc0 cl rs0 en0,
                 cblock lc next l pc0 = Some cl -> code_at C pc0 cl ->
                 match eblock f l en0 with
                 | None => True
                 | Some (SNormal _ en') =>
                     exists rs' en1, steps C (mk pc0 rs0 en0) (mk (pc0 + length cl) rs' en1) /\ en' = pop V en1
                 | Some (SBroke _ en') =>
                     match lc with
                     | Some l0 => exists rs', steps C (mk pc0 rs0 en0) (mk (lc_break l0) rs' (popn (lc_scopes l0) en'))
                     | None => False
                     end
                 | Some (SContinued _ en') =>
                     match lc with
                     | Some l0 => exists rs', steps C (mk pc0 rs0 en0) (mk (lc_continue l0) rs' (popn (lc_scopes l0) en'))
                     | None => False
                     end
                 | Some (SThrown _ er) => fails C (mk pc0 rs0 en0) er
                 end).
      { induction l as [|s1 l IHl]; intros pc0 cl rs0 en0 Hcl Hatl.
        - cbn in Hcl. inversion Hcl; subst cl. cbn [eblock].
          exists rs0, en0. split; [|reflexivity]. eapply steps_eq; [apply steps_refl|]. f_equal. cbn; lia.
        - cbn [cblock] in Hcl. fold (cblock lc next) in Hcl.
          destruct (cstmt s1 (deeper lc) next pc0) as [c1|] eqn:C1; [|discriminate].
          destruct (cblock lc next l (pc0 + length c1)) as [cr|] eqn:Cr; [|discriminate].
          inversion Hcl; subst cl; clear Hcl.
          pose proof (IH s1 (deeper lc) next pc0 c1 C rs0 en0 C1 (code_at_app_l _ _ _ _ Hatl)) as H1.
          cbn [eblock]. fold (eblock f).
          destruct (exec f s1 en0) as [[en1|en1|en1|er]|] eqn:E1; cbn [stmt_ok] in H1; [| | |exact H1|exact I].
          + destruct H1 as [rs1 S1].
            specialize (IHl (pc0 + length c1) cr rs1 en1 Cr (code_at_app_r _ _ _ _ Hatl)).
            destruct (eblock f l en1) as [[en2|en2|en2|er]|] eqn:E2; [| | | |exact I].
            * destruct IHl as [rs2 [en3 [S2 Ep]]]. exists rs2, en3. split; [|exact Ep].
              eapply steps_trans; [exact S1|]. eapply steps_eq; [exact S2|]. f_equal. rewrite app_length. lia.
            * destruct lc as [l0|]; [|exact IHl]. destruct IHl as [rs2 S2]. exists rs2. eapply steps_trans; eassumption.
            * destruct lc as [l0|]; [|exact IHl]. destruct IHl as [rs2 S2]. exists rs2. eapply steps_trans; eassumption.
            * eapply fails_after; [exact S1|exact IHl].
          + destruct lc as [l0|]; cbn [deeper lc_break lc_scopes] in H1; [|exact H1].
            destruct H1 as [rs1 S1]. exists rs1. rewrite popn_pop. exact S1.
          + destruct lc as [l0|]; cbn [deeper lc_continue lc_scopes] in H1; [|exact H1].
            destruct H1 as [rs1 S1]. exists rs1. rewrite popn_pop. exact S1. }
      assert (S0 : steps C (mk pc rs en) (mk (pc + 1) rs (push V en))).
      { apply steps_one. unfold Core.vstep; cbn [pc_of regs_of env_of]. rewrite Hn1. f_equal. f_equal. lia. }
      specialize (Hblock body (pc + 1) cb rs (push V en) Cb Hat_b).
      destruct (eblock f body (push V en)) as [[en2|en2|en2|er]|] eqn:E2; cbn [stmt_ok]; [| | | |exact I].
      + destruct Hblock as [rs2 [en3 [S2 Ep]]]. subst en2. exists rs2.
        eapply steps_trans; [exact S0|]. eapply steps_trans; [exact S2|]. apply steps_one.
        unfold Core.vstep; cbn [pc_of regs_of env_of].
        replace (pc + 1 + length cb) with (S pc + length cb) by lia. rewrite Hn2.
        f_equal. f_equal. cbn [app length]. rewrite app_length. cbn [length]. lia.
      + destruct lc as [l0|]; [|exact Hblock]. destruct Hblock as [rs2 S2]. exists rs2. eapply steps_trans; eassumption.
      + destruct lc as [l0|]; [|exact Hblock]. destruct Hblock as [rs2 S2]. exists rs2. eapply steps_trans; eassumption.
      + eapply fails_after; [exact S0|exact Hblock].
    - (* if *)
      cbn [Core.cstmt] in Hc. destruct (alloc next) as [tr|] eqn:Al; [|discriminate]. apply alloc_some in Al; subst tr.
      destruct (cexpr c0 next (S next) pc) as [cc|] eqn:Cc; [|discriminate].
      destruct (cstmt t lc next (pc + length cc + 1)) as [ct|] eqn:Ct; [|discriminate].
      cbn [Core.exec].
      destruct e as [s2|].
      + destruct (cstmt s2 lc next (pc + length cc + 1 + length ct + 1)) as [ce|] eqn:Ce; [|discriminate].
        inversion Hc; subst c; clear Hc.
        pose proof (code_at_app_l _ _ _ _ Hat) as Hat_c.
        pose proof (code_at_app_r _ _ _ _ Hat) as Hat_r1.
        pose proof (code_at_head _ _ _ _ Hat_r1) as Hn1.
        pose proof (code_at_tail _ _ _ _ Hat_r1) as Hat_r2.
        pose proof (code_at_app_l _ _ _ _ Hat_r2) as Hat_t.
        apply (code_at_eq _ _ (pc + length cc + 1)) in Hat_t; [|lia].
        pose proof (code_at_app_r _ _ _ _ Hat_r2) as Hat_r3.
        pose proof (code_at_head _ _ _ _ Hat_r3) as Hn2.
        pose proof (code_at_tail _ _ _ _ Hat_r3) as Hat_e.
        apply (code_at_eq _ _ (pc + length cc + 1 + length ct + 1)) in Hat_e; [|lia].
        pose proof (cexpr_correct c0 next (S next) pc cc C Cc Hat_c (Nat.lt_succ_diag_r _) rs en) as Hcond.
        destruct (eval c0 en) as [[vc|er] en1]; cbn [stmt_ok]; [|exact Hcond].
        destruct Hcond as [rs1 [S1 [R1 _]]].
        destruct (truthy vc) eqn:Et.
        * assert (S0 : steps C (mk pc rs en) (mk (pc + length cc + 1) rs1 en1)).
          { eapply steps_trans; [exact S1|]. apply steps_one.
            unfold Core.vstep; cbn [pc_of regs_of env_of]. rewrite Hn1, R1, Et. f_equal. f_equal. lia. }
          pose proof (IH t lc next (pc + length cc + 1) ct C rs1 en1 Ct Hat_t) as Ht.
          destruct (exec f t en1) as [[en2|en2|en2|er]|]; cbn [stmt_ok] in *; [| | | |exact I].
          -- destruct Ht as [rs2 S2]. exists rs2.
             eapply steps_trans; [exact S0|]. eapply steps_trans; [exact S2|]. apply steps_one.
             unfold Core.vstep; cbn [pc_of regs_of env_of].
             replace (pc + length cc + 1 + length ct) with (S (pc + length cc) + length ct) by lia.
             rewrite Hn2. f_equal. f_equal. rewrite !app_length. cbn [length]. rewrite !app_length. cbn [length]. lia.
          -- destruct lc as [l0|]; [|exact Ht]. destruct Ht as [rs2 S2]. exists rs2. eapply steps_trans; eassumption.
          -- destruct lc as [l0|]; [|exact Ht]. destruct Ht as [rs2 S2]. exists rs2. eapply steps_trans; eassumption.
          -- eapply fails_after; [exact S0|exact Ht].
        * assert (S0 : steps C (mk pc rs en) (mk (pc + length cc + 1 + length ct + 1) rs1 en1)).
          { eapply steps_trans; [exact S1|]. apply steps_one.
            unfold Core.vstep; cbn [pc_of regs_of env_of]. rewrite Hn1, R1, Et. reflexivity. }
          pose proof (IH s2 lc next (pc + length cc + 1 + length ct + 1) ce C rs1 en1 Ce Hat_e) as He.
          destruct (exec f s2 en1) as [[en2|en2|en2|er]|]; cbn [stmt_ok] in *; [| | | |exact I].
          -- destruct He as [rs2 S2]. exists rs2.
             eapply steps_trans; [exact S0|]. eapply steps_eq; [exact S2|].
             f_equal. rewrite !app_length. cbn [length]. rewrite !app_length. cbn [length]. lia.
          -- destruct lc as [l0|]; [|exact He]. destruct He as [rs2 S2]. exists rs2. eapply steps_trans; eassumption.
          -- destruct lc as [l0|]; [|exact He]. destruct He as [rs2 S2]. exists rs2. eapply steps_trans; eassumption.
          -- eapply fails_after; [exact S0|exact He].
      + inversion Hc; subst c; clear Hc.
        pose proof (code_at_app_l _ _ _ _ Hat) as Hat_c.
        pose proof (code_at_app_r _ _ _ _ Hat) as Hat_r1.
        pose proof (code_at_head _ _ _ _ Hat_r1) as Hn1.
        pose proof (code_at_tail _ _ _ _ Hat_r1) as Hat_t.
        apply (code_at_eq _ _ (pc + length cc + 1)) in Hat_t; [|lia].
        pose proof (cexpr_correct c0 next (S next) pc cc C Cc Hat_c (Nat.lt_succ_diag_r _) rs en) as Hcond.
        destruct (eval c0 en) as [[vc|er] en1]; cbn [stmt_ok]; [|exact Hcond].
        destruct Hcond as [rs1 [S1 [R1 _]]].
        destruct (truthy vc) eqn:Et.
        * assert (S0 : steps C (mk pc rs en) (mk (pc + length cc + 1) rs1 en1)).
          { eapply steps_trans; [exact S1|]. apply steps_one.
            unfold Core.vstep; cbn [pc_of regs_of env_of]. rewrite Hn1, R1, Et. f_equal. f_equal. lia. }
          pose proof (IH t lc next (pc + length cc + 1) ct C rs1 en1 Ct Hat_t) as Ht.
          destruct (exec f t en1) as [[en2|en2|en2|er]|]; cbn [stmt_ok] in *; [| | | |exact I].
          -- destruct Ht as [rs2 S2]. exists rs2.
             eapply steps_trans; [exact S0|]. eapply steps_eq; [exact S2|].
             f_equal. rewrite !app_length. cbn [length]. lia.
          -- destruct lc as [l0|]; [|exact Ht]. destruct Ht as [rs2 S2]. exists rs2. eapply steps_trans; eassumption.
          -- destruct lc as [l0|]; [|exact Ht]. destruct Ht as [rs2 S2]. exists rs2. eapply steps_trans; eassumption.
          -- eapply fails_after; [exact S0|exact Ht].
        * cbn [stmt_ok]. exists rs1. eapply steps_trans; [exact S1|]. apply steps_one.
          unfold Core.vstep; cbn [pc_of regs_of env_of]. rewrite Hn1, R1, Et.
          f_equal. f_equal. rewrite !app_length. cbn [length]. lia.
    - (* while *)
      pose proof Hc as Hwhole.
      cbn [Core.cstmt] in Hc. destruct (alloc next) as [tr|] eqn:Al; [|discriminate].
      apply alloc_some in Al; subst tr.
      destruct (cexpr c0 next (S next) pc) as [cc|] eqn:Cc; [|discriminate].
      set (finish := pc + length cc + 1 + ssize bop uop body + 1) in *.
      set (lcb := Some {| lc_continue := pc; lc_break := finish; lc_scopes := 0 |}) in *.
      destruct (cstmt body lcb next (pc + length cc + 1)) as [cb|] eqn:Cb; [|discriminate].
      inversion Hc; subst c; clear Hc.
      pose proof (cstmt_length _ _ _ _ _ Cb) as Lb.
      pose proof (code_at_app_l _ _ _ _ Hat) as Hat_c.
      pose proof (code_at_app_r _ _ _ _ Hat) as Hat_r1.
      pose proof (code_at_head _ _ _ _ Hat_r1) as Hn1.
      pose proof (code_at_tail _ _ _ _ Hat_r1) as Hat_r2.
      pose proof (code_at_app_l _ _ _ _ Hat_r2) as Hat_b.
      apply (code_at_eq _ _ (pc + length cc + 1)) in Hat_b; [|lia].
      pose proof (code_at_head _ _ _ _ (code_at_app_r _ _ _ _ Hat_r2)) as Hn2.
      pose proof (cexpr_correct c0 next (S next) pc cc C Cc Hat_c (Nat.lt_succ_diag_r _) rs en) as Hcond.
      assert (Hlen : pc + length (cc ++ [OJumpIfFalse bop uop next finish] ++ cb ++ [OJump bop uop pc]) = finish).
      { rewrite !app_length. cbn [length]. rewrite ?app_length. cbn [length]. unfold finish. lia. }
      cbn [Core.exec].
      destruct (eval c0 en) as [[vc|er] en1]; cbn [stmt_ok]; [|exact Hcond].
      destruct Hcond as [rs1 [S1 [R1 _]]].
      destruct (truthy vc) eqn:Et.
      + assert (S0 : steps C (mk pc rs en) (mk (pc + length cc + 1) rs1 en1)).
        { eapply steps_trans; [exact S1|]. apply steps_one.
          unfold Core.vstep; cbn [pc_of regs_of env_of]. rewrite Hn1, R1, Et. f_equal. f_equal. lia. }
        pose proof (IH body lcb next (pc + length cc + 1) cb C rs1 en1 Cb Hat_b) as Hb.
        (* the loop again, from its start *)
        assert (Hagain : forall rs2 en2, steps C (mk pc rs en) (mk pc rs2 en2) ->
                  stmt_ok C (exec f (SWhile bop uop c0 body) en2) lc pc
                          (cc ++ [OJumpIfFalse bop uop next finish] ++ cb ++ [OJump bop uop pc]) rs en).
        { intros rs2 en2 S3.
          pose proof (IH (SWhile bop uop c0 body) lc next pc _ C rs2 en2 Hwhole Hat) as Hl.
          destruct (exec f (SWhile bop uop c0 body) en2) as [[en3|en3|en3|er]|]; cbn [stmt_ok] in *; [| | | |exact I].
          - destruct Hl as [rs3 S4]. exists rs3. eapply steps_trans; eassumption.
          - destruct lc as [l0|]; [|exact Hl]. destruct Hl as [rs3 S4]. exists rs3. eapply steps_trans; eassumption.
          - destruct lc as [l0|]; [|exact Hl]. destruct Hl as [rs3 S4]. exists rs3. eapply steps_trans; eassumption.
          - eapply fails_after; eassumption. }
        destruct (exec f body en1) as [[en2|en2|en2|er]|]; cbn [stmt_ok] in Hb; [| | | |exact I].
        * destruct Hb as [rs2 S2]. apply (Hagain rs2 en2).
          eapply steps_trans; [exact S0|]. eapply steps_trans; [exact S2|]. apply steps_one.
          unfold Core.vstep; cbn [pc_of regs_of env_of].
          replace (pc + length cc + 1 + length cb) with (S (pc + length cc) + length cb) by lia.
          rewrite Hn2. reflexivity.
        * (* break: out of the loop *)
          unfold lcb in Hb. cbn [lc_break lc_scopes Nat.iter] in Hb. destruct Hb as [rs2 S2].
          cbn [stmt_ok]. exists rs2. eapply steps_trans; [exact S0|]. eapply steps_eq; [exact S2|]. f_equal. symmetry. exact Hlen.
        * (* continue: back to the test *)
          unfold lcb in Hb. cbn [lc_continue lc_scopes Nat.iter] in Hb. destruct Hb as [rs2 S2].
          apply (Hagain rs2 en2). eapply steps_trans; [exact S0|exact S2].
        * cbn [stmt_ok]. eapply fails_after; [exact S0|exact Hb].
      + cbn [stmt_ok]. exists rs1. eapply steps_trans; [exact S1|]. apply steps_one.
        unfold Core.vstep; cbn [pc_of regs_of env_of]. rewrite Hn1, R1, Et. f_equal. f_equal. symmetry. exact Hlen.
    - (* break *)
      cbn [Core.cstmt] in Hc. destruct lc as [l0|]; [|discriminate]. inversion Hc; subst c; clear Hc.
      pose proof (code_at_head _ _ _ _ Hat) as Hn. cbn [Core.exec stmt_ok]. exists rs.
      apply steps_one. unfold Core.vstep; cbn [pc_of regs_of env_of]. rewrite Hn. reflexivity.
    - (* continue *)
      cbn [Core.cstmt] in Hc. destruct lc as [l0|]; [|discriminate]. inversion Hc; subst c; clear Hc.
      pose proof (code_at_head _ _ _ _ Hat) as Hn. cbn [Core.exec stmt_ok]. exists rs.
      apply steps_one. unfold Core.vstep; cbn [pc_of regs_of env_of]. rewrite Hn. reflexivity.
    - (* empty *)
      cbn [Core.cstmt] in Hc. inversion Hc; subst c. cbn [Core.exec stmt_ok].
      exists rs. eapply steps_eq; [apply steps_refl|]. f_equal. cbn; lia.
  Qed.

  Lemma cstmts_correct : forall fuel l next pc c C rs en,
      cstmts l next pc = Some c -> code_at C pc c -> stmt_ok C (exec_list fuel l en) None pc c rs en.
  Proof.
    intros fuel l; induction l as [|s1 l IHl]; intros next pc c C rs en Hc Hat.
    - cbn in Hc. inversion Hc; subst c. cbn [Core.exec_list stmt_ok].
      exists rs. eapply steps_eq; [apply steps_refl|]. f_equal. cbn; lia.
    - cbn [Core.cstmts] in Hc.
      destruct (cstmt s1 None next pc) as [c1|] eqn:C1; [|discriminate].
      destruct (cstmts l next (pc + length c1)) as [cr|] eqn:Cr; [|discriminate].
      inversion Hc; subst c; clear Hc.
      pose proof (cstmt_correct fuel s1 None next pc c1 C rs en C1 (code_at_app_l _ _ _ _ Hat)) as H1.
      cbn [Core.exec_list].
      destruct (exec fuel s1 en) as [[en1|en1|en1|er]|]; cbn [stmt_ok] in *; [|exact H1|exact H1|exact H1|exact I].
      destruct H1 as [rs1 S1].
      specialize (IHl next (pc + length c1) cr C rs1 en1 Cr (code_at_app_r _ _ _ _ Hat)).
      destruct (exec_list fuel l en1) as [[en2|en2|en2|er]|]; cbn [stmt_ok] in *; [|exact IHl|exact IHl| |exact I].
      + destruct IHl as [rs2 S2]. exists rs2. eapply steps_trans; [exact S1|].
        eapply steps_eq; [exact S2|]. f_equal. rewrite app_length. lia.
      + eapply fails_after; [exact S1|exact IHl].
  Qed.

  (* ---------------- whole programs ---------------- *)
  Lemma fails_runs C m e : fails C m e -> exists k, vm_run k C m = Some (OError V e).
  Proof.
    intros [m' [Hs He]]. apply (vm_run_steps _ _ _ Hs 1). cbn [Core.vm_run]. rewrite He. reflexivity.
  Qed.

  Theorem compile_correct : forall fuel body final C out,
      ccompile body final = Some C ->
      run_source fuel body final = Some out ->
      exists k, vm_run k C (vm_init V vundef) = Some out.
  Proof.
    intros fuel body final C out Hc Hr. unfold Core.ccompile in Hc.
    destruct (cstmts body 0 1) as [cb|] eqn:Cb; [|discriminate].
    destruct (cexpr final 0 1 (1 + length cb)) as [cf|] eqn:Cf; [|discriminate].
    inversion Hc; subst C; clear Hc.
    set (C := [OLoadUndef bop uop 0] ++ cb ++ cf ++ [OHalt bop uop]) in *.
    pose proof (code_at_self C) as Hat. unfold C in Hat at 2.
    pose proof (code_at_head _ _ _ _ Hat) as Hn0.
    pose proof (code_at_tail _ _ _ _ Hat) as Hat1.
    pose proof (code_at_app_l _ _ _ _ Hat1) as Hat_b.
    pose proof (code_at_app_r _ _ _ _ Hat1) as Hat2.
    pose proof (code_at_app_l _ _ _ _ Hat2) as Hat_f.
    pose proof (code_at_head _ _ _ _ (code_at_app_r _ _ _ _ Hat2)) as Hnh.
    set (rs0 := upd (fun _ => vundef) 0 vundef).
    assert (S0 : steps C (vm_init V vundef) (mk 1 rs0 [[]])).
    { apply steps_one. unfold Core.vstep, vm_init; cbn [pc_of regs_of env_of]. rewrite Hn0. reflexivity. }
    unfold Core.run_source in Hr.
    pose proof (cstmts_correct fuel body 0 1 cb C rs0 [[]] Cb Hat_b) as Hb.
    destruct (exec_list fuel body [[]]) as [[en1|en1|en1|er]|]; cbn [stmt_ok] in Hb; [|contradiction|contradiction| |discriminate].
    - destruct Hb as [rs1 S1].
      pose proof (cexpr_correct final 0 1 (1 + length cb) cf C Cf Hat_f Nat.lt_0_1 rs1 en1) as Hf.
      destruct (eval final en1) as [[v|er] en2]; inversion Hr; subst out; clear Hr.
      + destruct Hf as [rs2 [S2 [R2 _]]].
        assert (Hall : steps C (vm_init V vundef) (mk (1 + length cb + length cf) rs2 en2))
          by (eapply steps_trans; [exact S0|eapply steps_trans; [exact S1|exact S2]]).
        apply (vm_run_steps _ _ _ Hall 1). cbn [Core.vm_run]. unfold Core.vstep; cbn [pc_of regs_of env_of].
        rewrite Hnh, R2. reflexivity.
      + destruct (fails_runs C _ er Hf) as [k Hk].
        eapply vm_run_steps; [eapply steps_trans; [exact S0|exact S1]|exact Hk].
    - inversion Hr; subst out; clear Hr.
      destruct (fails_runs C _ er Hb) as [k Hk].
      eapply vm_run_steps; [exact S0|exact Hk].
  Qed.

  (* the machine is deterministic, so the outcome the theorem promises is the
     only one any sufficiently long run can produce *)
  Lemma vm_run_mono : forall k C m out, vm_run k C m = Some out -> forall k', k <= k' -> vm_run k' C m = Some out.
  Proof.
    induction k as [|k IH]; intros C m out H k' Hle; [discriminate|].
    destruct k' as [|k']; [lia|]. cbn [Core.vm_run] in *.
    destruct (vstep C m); try exact H. apply IH; [exact H|lia].
  Qed.
  Theorem compile_correct_unique : forall fuel body final C out k out',
      ccompile body final = Some C ->
      run_source fuel body final = Some out ->
      vm_run k C (vm_init V vundef) = Some out' -> out' = out.
  Proof.
    intros fuel body final C out k out' Hc Hr Hk.
    destruct (compile_correct fuel body final C out Hc Hr) as [k0 Hk0].
    pose proof (vm_run_mono _ _ _ _ Hk (Nat.max k k0) (Nat.le_max_l _ _)) as H1.
    pose proof (vm_run_mono _ _ _ _ Hk0 (Nat.max k k0) (Nat.le_max_r _ _)) as H2.
    congruence.
  Qed.
End CoreProofs.
