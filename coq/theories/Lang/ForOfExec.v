(* C01, mechanism M6: executable instance of Lang/ForOf.v for the correspondence check. *)
From Coq Require Import List String ZArith Bool.
From TsrunV Require Import Base.Render Lang.ForOf.
Import ListNotations.
Local Open Scope string_scope.

Definition show_op (o : op) : string :=
  match o with
  | ONext => "next"
  | OIterDone t => "id" ++ string_of_nat t
  | OValue => "value"
  | OPushScope => "pushscope"
  | ODeclare => "declare"
  | OPushIterTry => "pushitertry"
  | OBody b c s => "body" ++ string_of_nat b ++ "," ++ string_of_nat c ++ "," ++ string_of_nat s
  | OBodyIn b c s => "body" ++ string_of_nat b ++ "," ++ string_of_nat c ++ "," ++ string_of_nat s
  | OPopIterTry => "popitertry"
  | OPopScope => "popscope"
  | OJump t => "j" ++ string_of_nat t
  | OClose => "close"
  | ORethrow => "rethrow"
  end.

Definition zmem (x : Z) (l : list Z) : bool := existsb (Z.eqb x) l.

Definition body_of (brks conts : list Z) (v : Z) : outcome :=
  if zmem v brks then Brk else if zmem v conts then Cont else Normal.

Fixpoint nodup_nat (l : list nat) : bool :=
  match l with [] => true | x :: r => negb (existsb (Nat.eqb x) r) && nodup_nat r end.

Definition show_log (l : list (nat * option Z)) : string :=
  String.concat "," (map (fun e => match snd e with Some v => string_of_Z v | None => "-1" end) l).

(* values seen by the closures of the executions / next() calls / closed / environments distinct and restored *)
Definition forof_case (p : nat) (it brks conts : list Z) : string :=
  let b := body_of brks conts in
  String.concat ";" (map show_op (cforof p)) ++ "|" ++
  match run_halt Z (-1)%Z b 2 (cforof 0) (20 * (2 + List.length it)) (mk Z 0 it (RNone Z) 0%Z [(5, None)] 6 2 [] 0 false) with
  | Some s => show_log (log Z s) ++ "/" ++ string_of_nat (nexts Z s) ++ "/" ++ string_of_bool (closed Z s) ++ "/" ++
              string_of_bool (nodup_nat (map fst (log Z s)) && Nat.eqb (List.length (frames Z s)) 1 && Nat.eqb (trys Z s) 2)
  | None => "nofuel"
  end ++ "|" ++
  let '(L, N, C, _) := spec Z b it 6 in
  show_log L ++ "/" ++ string_of_nat N ++ "/" ++ string_of_bool C ++ "/" ++ string_of_bool (nodup_nat (map fst L)).

Definition forin_case (p : nat) (it brks conts : list Z) : string :=
  let b := body_of brks conts in
  String.concat ";" (map show_op (cforin p)) ++ "|" ++
  match run_halt Z (-1)%Z b 2 (cforin 0) (20 * (2 + List.length it)) (mk Z 0 it (RNone Z) 0%Z [(5, None)] 6 2 [] 0 false) with
  | Some s => show_log (log Z s) ++ "/" ++ string_of_bool (closed Z s) ++ "/" ++
              string_of_bool (nodup_nat (map fst (log Z s)) && Nat.eqb (List.length (frames Z s)) 1 && Nat.eqb (trys Z s) 2)
  | None => "nofuel"
  end ++ "|" ++
  let '(L, N, C, _) := spec_in Z b it 6 in
  show_log L ++ "/" ++ string_of_bool C ++ "/" ++ string_of_bool (nodup_nat (map fst L)).
