(* C01 -- property theorems only (mechanism M2: the compiled core). *)
From Coq Require Import String ZArith Bool List Lia.
From TsrunV Require Import Lang.Ops Lang.OpsProofs Lang.Core Lang.CoreProofs Lang.CoreExt Lang.CoreInst.
Import ListNotations.

(* Whatever the values are and whatever the operators mean: if the compiler
   accepts a program of the core (statements followed by a final expression)
   and the source semantics gives it an outcome - a value together with the
   final environment, or a ReferenceError / assignment-to-constant TypeError -
   then the compiled code, run on the machine from its initial state, halts
   with exactly that outcome, and no run of the machine of any length gives
   another one. Every program, every nesting depth, every number of loop
   iterations. *)
Theorem c01_core_compilation_preserves_meaning :
  forall (V bop uop : Type) (bsem : bop -> V -> V -> V) (usem : uop -> V -> V) (typeof_sem : V -> V)
         (truthy nullish : V -> bool) (vundef vnull : V) (vbool : bool -> V) (vint : Z -> V) (vstr : string -> V)
         fuel body final C out,
    ccompile bop uop body final = Some C ->
    run_source V bop uop bsem usem typeof_sem truthy nullish vundef vnull vbool vint vstr fuel body final = Some out ->
    (exists k, vm_run V bop uop bsem usem typeof_sem truthy nullish vundef vnull vbool vint vstr k C (vm_init V vundef) = Some out)
    /\ (forall k out', vm_run V bop uop bsem usem typeof_sem truthy nullish vundef vnull vbool vint vstr k C (vm_init V vundef) = Some out'
                       -> out' = out).
Proof.
  intros. split.
  - eapply compile_correct; eassumption.
  - intros. eapply compile_correct_unique; eassumption.
Qed.
Print Assumptions c01_core_compilation_preserves_meaning.

(* With the primitive values of Lang/Ops.v: the machine runs the operators as
   BytecodeVM::execute_op implements them, the source semantics uses the
   ECMAScript operators (ToBoolean for conditions, the specification's
   operator tables), and the outcomes agree for every double model satisfying
   the IEEE comparison laws. *)
Theorem c01_core_runs_as_ecmascript :
  forall (F : Type) (fadd fsub fmul fdiv frem fpow : F -> F -> F) (fneg fabs : F -> F) (flt feq : F -> F -> bool)
         (fnan fzero fone finf : F) (fisnan : F -> bool) (tonum : string -> F) (tostr : F -> string)
         (toint32 touint32 : F -> Z) (ofint : Z -> F) (str_lt : string -> string -> bool),
  (forall x y, flt x y = true -> fisnan x = false /\ fisnan y = false) ->
  (forall x y, feq x y = true -> fisnan x = false /\ fisnan y = false) ->
  (forall x y, fisnan x = false -> fisnan y = false -> (flt x y || feq x y) = negb (flt y x)) ->
  (forall x y, flt x y = true -> feq x y = false) ->
  (forall a b, str_lt a b = true -> str_lt b a = false) ->
  forall fuel body final C out,
    ccompile binop unop body final = Some C ->
    es_run_source F fadd fsub fmul fdiv frem fpow fneg fabs flt feq fnan fzero fone finf fisnan tonum tostr toint32 touint32 ofint str_lt
                  fuel body final = Some out ->
    (exists k, machine_run F fadd fsub fmul fdiv frem fpow fneg fabs flt feq fnan fzero fone finf fisnan tonum tostr toint32 touint32 ofint str_lt
                           k C (machine_init F) = Some out)
    /\ (forall k out', machine_run F fadd fsub fmul fdiv frem fpow fneg fabs flt feq fnan fzero fone finf fisnan tonum tostr toint32 touint32 ofint str_lt
                                   k C (machine_init F) = Some out' -> out' = out).
Proof.
  intros F fadd fsub fmul fdiv frem fpow fneg fabs flt feq fnan fzero fone finf fisnan tonum tostr toint32 touint32 ofint str_lt
         H1 H2 H3 H4 H5 fuel body final C out Hc Hr.
  unfold es_run_source in Hr.
  rewrite (run_source_ext (prim F) binop unop
             (es_b F fadd fsub fmul fdiv frem fpow fabs flt feq fnan fzero fone finf fisnan tonum tostr toint32 touint32 ofint str_lt)
             (vm_b F fadd fsub fmul fdiv frem fpow fabs flt feq fnan fzero fone finf fisnan tonum tostr toint32 touint32 ofint str_lt)
             (es_u F fneg feq fnan fzero fone fisnan tonum toint32 ofint)
             (vm_u F fneg feq fnan fzero fone fisnan tonum toint32 ofint)
             (es_u F fneg feq fnan fzero fone fisnan tonum toint32 ofint Typeof)
             (vm_u F fneg feq fnan fzero fone fisnan tonum toint32 ofint Typeof)
             (es_truthy F feq fzero fisnan) (vm_truthy F feq fzero fisnan)) in Hr.
  - unfold machine_run, machine_init. split.
    + eapply compile_correct; eassumption.
    + intros. eapply compile_correct_unique; eassumption.
  - intros o a b. unfold es_b, vm_b. symmetry. apply binop_refines_es; auto.
  - intros o a. unfold es_u, vm_u. symmetry. apply unop_refines_es.
  - intros a. unfold es_u, vm_u. symmetry. apply unop_refines_es.
  - intros a. unfold es_truthy, vm_truthy. symmetry. apply to_boolean_spec.
Qed.
Print Assumptions c01_core_runs_as_ecmascript.

(* the premises are satisfiable: a model of the doubles without NaN (the
   integers) meets the comparison laws, and under it a program with a loop left by break and
   shortened by continue from inside nested blocks, a conditional, shadowing
   block scopes, short-circuit, compound and logical assignment is accepted, has an outcome in the source semantics, and the
   machine produces it *)
Definition wv (x : string) : expr binop unop := EVar _ _ x.
Definition wi (z : Z) : expr binop unop := ELit _ _ (LInt z).
Definition witness_body : list (stmt binop unop) :=
  [SDecl _ _ true "x" (wi 1); SDecl _ _ false "k" (wi 300);
   SWhile _ _ (EBin _ _ Lt (wv "x") (wi 10))
     (SBlock _ _ [SDecl _ _ true "k" (wi 2);
                  SExpr _ _ (ECompound _ _ Add "x" (wv "k"));
                  SIf _ _ (EBin _ _ StrictEq (wv "x") (wi 5)) (SBlock _ _ [SDecl _ _ true "k" (wi 0); SContinue _ _]) None;
                  SIf _ _ (EBin _ _ Gt (wv "x") (wi 8)) (SBreak _ _) None;
                  SIf _ _ (ELog _ _ LAnd (EBin _ _ Gt (wv "x") (wi 5)) (wv "k"))
                      (SExpr _ _ (ELogAssign _ _ LOr "k" (wi 7)))
                      (Some (SExpr _ _ (EAssign _ _ "k" (ECond _ _ (wv "x") (wi 3) (wi 4)))))])].
Definition witness_final : expr binop unop := EBin _ _ Add (wv "x") (wv "k").

Definition z_es_run := es_run_source Z Z.add Z.sub Z.mul Z.div Z.rem Z.pow Z.opp Z.abs Z.ltb Z.eqb 0%Z 0%Z 1%Z 0%Z (fun _ => false)
                                     (fun _ => 0%Z) (fun _ => ""%string) (fun z => z) (fun z => z) (fun z => z) (fun _ _ => false).
Definition z_machine := machine_run Z Z.add Z.sub Z.mul Z.div Z.rem Z.pow Z.opp Z.abs Z.ltb Z.eqb 0%Z 0%Z 1%Z 0%Z (fun _ => false)
                                    (fun _ => 0%Z) (fun _ => ""%string) (fun z => z) (fun z => z) (fun z => z) (fun _ _ => false).

Theorem c01_core_witness :
  (forall x y, Z.ltb x y = true -> false = false /\ false = false) /\
  (forall x y : Z, (Z.ltb x y || Z.eqb x y) = negb (Z.ltb y x)) /\
  (forall x y, Z.ltb x y = true -> Z.eqb x y = false) /\
  exists C en, ccompile binop unop witness_body witness_final = Some C /\ length C = 53 /\
               z_es_run 100 witness_body witness_final = Some (OValue _ (PNum Z 309%Z) en) /\
               z_machine 1000 C (machine_init Z) = Some (OValue _ (PNum Z 309%Z) en).
Proof.
  split; [intros; split; reflexivity|]. split; [intros x y; destruct (Z.ltb_spec x y), (Z.eqb_spec x y), (Z.ltb_spec y x); cbn; try reflexivity; lia|].
  split; [intros x y H; apply Z.ltb_lt in H; apply Z.eqb_neq; lia|].
  eexists. eexists. split; [vm_compute; reflexivity|]. split; [reflexivity|]. split; vm_compute; reflexivity.
Qed.
Print Assumptions c01_core_witness.
