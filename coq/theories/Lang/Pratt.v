(* C01-M3: the operator-precedence loop of the parser
   (Parser::parse_binary_expression_unguarded): operands and binary operators
   alternate; an operator is taken while its precedence is at least the
   minimum of the current level, its right operand is parsed at the next level
   (the same level for a right-associative operator), and the result becomes
   the left operand of what follows. Generic in operands and operators.
   No proofs here. *)
From Coq Require Import List Arith Bool.
Import ListNotations.

Section Pratt.
  Variable A : Type.                 (* operands (already parsed unary expressions) *)
  Variable O : Type.                 (* operator tokens *)
  Variable prec : O -> nat.
  Variable right_assoc : O -> bool.

  Inductive tree := Leaf (a : A) | Node (o : O) (l r : tree).

  Definition next_prec (o : O) : nat := if right_assoc o then prec o else S (prec o).

  (* parse_binary_expression(min) = expr; its while loop = loop *)
  Fixpoint expr (fuel : nat) (min : nat) (a : A) (rest : list (O * A)) {struct fuel} : option (tree * list (O * A)) :=
    match fuel with
    | 0 => None
    | S f => loop f min (Leaf a) rest
    end
  with loop (fuel : nat) (min : nat) (lhs : tree) (rest : list (O * A)) {struct fuel} : option (tree * list (O * A)) :=
    match fuel with
    | 0 => None
    | S f =>
        match rest with
        | [] => Some (lhs, [])
        | (o, a) :: rest' =>
            if prec o <? min then Some (lhs, rest)
            else match expr f (next_prec o) a rest' with
                 | None => None
                 | Some (rhs, rest'') => loop f min (Node o lhs rhs) rest''
                 end
        end
    end.

  Definition parse (a : A) (rest : list (O * A)) : option tree :=
    match expr (2 * length rest + 2) 0 a rest with
    | Some (t, []) => Some t
    | _ => None
    end.

  (* ---- what a parse must be ---- *)
  (* the operands and operators of a tree, in source order *)
  Fixpoint first (t : tree) : A := match t with Leaf a => a | Node _ l _ => first l end.
  Fixpoint others (t : tree) : list (O * A) :=
    match t with
    | Leaf _ => []
    | Node o l r => others l ++ (o, first r) :: others r
    end.

  (* the stratified grammar of binary expressions: at level p only operators of
     precedence >= p; a left-associative operator of precedence q has a level-q
     left operand and a level-(q+1) right operand, a right-associative one the
     other way round *)
  Fixpoint derives (p : nat) (t : tree) : Prop :=
    match t with
    | Leaf _ => True
    | Node o l r =>
        p <= prec o /\
        if right_assoc o then derives (S (prec o)) l /\ derives (prec o) r
        else derives (prec o) l /\ derives (S (prec o)) r
    end.
End Pratt.
