(* C06: one host-visible step executes one instruction; script-to-script calls
   are turned into heap-allocated trampoline frames, so neither the work per
   step nor the native stack depth grows with script call depth. The only
   instruction that can do more is a native that re-enters the VM (a nested run
   loop), and those sites are pinned from the source (Expected/FactsC06.v). *)
From Coq Require Import List Arith Lia.
Import ListNotations.

Inductive instr :=
| IPlain                      (* any instruction that neither calls nor returns *)
| ICall (f : nat)             (* call of a bytecode function: setup_trampoline_call *)
| IRet                        (* return / end of chunk: restore_from_trampoline_frame *)
| INative (callback : option nat).   (* native function; Some g: it calls back into script function g *)

Definition program := nat -> list instr.

Record frame := mkF { f_fn : nat; f_pc : nat }.
Record vm := mkVM {
  cur : option frame;          (* None: halted *)
  tramp : list frame;          (* trampoline_stack *)
  native_depth : nat           (* nesting of BytecodeVM::run loops on the Rust stack *)
}.

Definition fetch (p : program) (fr : frame) : option instr := nth_error (p (f_fn fr)) (f_pc fr).
Definition next (fr : frame) : frame := mkF (f_fn fr) (S (f_pc fr)).

(* run a callback to completion in a nested loop; fuel only bounds the model's recursion *)
Fixpoint run_nested (fuel : nat) (p : program) (v : vm) (base : nat) : vm * nat * nat :=
  (* returns (final vm, instructions executed, max native depth seen); stops when the trampoline is back at `base` and the frame returns *)
  match fuel with
  | O => (v, 0, native_depth v)
  | S f =>
      match cur v with
      | None => (v, 0, native_depth v)
      | Some fr =>
          match fetch p fr with
          | None | Some IRet =>
              match tramp v with
              | [] => (mkVM None [] (native_depth v), 1, native_depth v)
              | r :: rest =>
                  if Nat.leb (length (tramp v)) base then (mkVM None (tramp v) (native_depth v), 1, native_depth v)
                  else let '(v', w, d) := run_nested f p (mkVM (Some r) rest (native_depth v)) base in (v', S w, d)
              end
          | Some IPlain | Some (INative None) =>
              let '(v', w, d) := run_nested f p (mkVM (Some (next fr)) (tramp v) (native_depth v)) base in (v', S w, d)
          | Some (ICall g) =>
              let '(v', w, d) := run_nested f p (mkVM (Some (mkF g 0)) (next fr :: tramp v) (native_depth v)) base in (v', S w, d)
          | Some (INative (Some g)) =>
              let '(v1, w1, d1) := run_nested f p (mkVM (Some (mkF g 0)) (tramp v) (S (native_depth v))) (length (tramp v)) in
              let '(v', w, d) := run_nested f p (mkVM (Some (next fr)) (tramp v) (native_depth v)) base in
              (v', S (w1 + w), Nat.max d1 d)
          end
      end
  end.

(* Interpreter::step : one instruction of the active VM; returns (vm', work, max native depth during the step) *)
Definition step (fuel : nat) (p : program) (v : vm) : vm * nat * nat :=
  match cur v with
  | None => (v, 0, native_depth v)
  | Some fr =>
      match fetch p fr with
      | None | Some IRet =>
          match tramp v with
          | [] => (mkVM None [] (native_depth v), 1, native_depth v)
          | r :: rest => (mkVM (Some r) rest (native_depth v), 1, native_depth v)
          end
      | Some IPlain | Some (INative None) => (mkVM (Some (next fr)) (tramp v) (native_depth v), 1, native_depth v)
      | Some (ICall g) => (mkVM (Some (mkF g 0)) (next fr :: tramp v) (native_depth v), 1, native_depth v)
      | Some (INative (Some g)) =>
          let '(_, w, d) := run_nested fuel p (mkVM (Some (mkF g 0)) (tramp v) (S (native_depth v))) (length (tramp v)) in
          (mkVM (Some (next fr)) (tramp v) (native_depth v), S w, Nat.max d (S (native_depth v)))
      end
  end.

Definition reenters (p : program) (v : vm) : Prop :=
  exists fr g, cur v = Some fr /\ fetch p fr = Some (INative (Some g)).

(* one instruction, no growth of the native stack, unless the instruction is a re-entering native *)
Theorem step_is_one_instruction fuel p v : ~ reenters p v -> cur v <> None ->
  let '(v', w, d) := step fuel p v in w = 1 /\ d = native_depth v /\ native_depth v' = native_depth v.
Proof.
  intros NR NH. unfold step. destruct (cur v) as [fr|] eqn:E; [|congruence].
  destruct (fetch p fr) as [i|] eqn:F; [destruct i as [|g| |[g|]]|]; simpl; auto;
    try (destruct (tramp v); simpl; auto; fail).
  exfalso. apply NR. exists fr, g. auto.
Qed.

(* the host-visible call depth is exactly the number of calls not yet returned *)
Theorem call_depth_is_host_visible fuel p v : cur v <> None ->
  let '(v', _, _) := step fuel p v in
  match cur v with
  | Some fr => match fetch p fr with
               | Some (ICall _) => length (tramp v') = S (length (tramp v))
               | Some IRet | None => length (tramp v') = Nat.pred (length (tramp v))
               | _ => length (tramp v') = length (tramp v)
               end
  | None => True
  end.
Proof.
  intros NH. unfold step. destruct (cur v) as [fr|] eqn:E; [|congruence].
  destruct (fetch p fr) as [i|] eqn:F; [destruct i as [|g| |[g|]]|]; simpl; auto;
    try (destruct (tramp v); simpl; auto; fail).
  destruct (run_nested fuel p _ _) as [[a b] c]. reflexivity.
Qed.

(* unbounded script recursion: n nested calls cost n steps of one instruction each,
   and never deepen the native stack *)
Fixpoint steps (fuel : nat) (p : program) (n : nat) (v : vm) : vm * nat * nat :=
  match n with
  | O => (v, 0, native_depth v)
  | S k => let '(v1, w1, d1) := step fuel p v in
           let '(v2, w2, d2) := steps fuel p k v1 in (v2, Nat.max w1 w2, Nat.max d1 d2)
  end.

Definition recursive_program : program := fun _ => [ICall 0].

Theorem recursion_depth_costs_no_native_stack n fuel :
  let '(v, w, d) := steps fuel recursive_program n (mkVM (Some (mkF 0 0)) [] 0) in
  length (tramp v) = n /\ w <= 1 /\ d = 0 /\ native_depth v = 0.
Proof.
  assert (G : forall n t, let '(v, w, d) := steps fuel recursive_program n (mkVM (Some (mkF 0 0)) t 0) in
                          length (tramp v) = n + length t /\ w <= 1 /\ d = 0 /\ native_depth v = 0).
  { induction n0 as [|k IH]; intros t; simpl; [lia|].
    specialize (IH (mkF 0 1 :: t)). destruct (steps fuel recursive_program k _) as [[v2 w2] d2].
    destruct IH as [A [B [C D]]]. simpl in A. repeat split; auto; try lia.
    destruct w2 as [|[|w]]; lia. }
  specialize (G n []). destruct (steps fuel recursive_program n _) as [[v w] d].
  simpl in G. rewrite Nat.add_0_r in G. exact G.
Qed.

(* a re-entering native does more than one instruction of work in one step (the known weak spot) *)
Example reentry_exceeds_one :
  let p : program := fun f => match f with 0 => [INative (Some 1)] | _ => [IPlain; IPlain; IPlain] end in
  let '(_, w, d) := step 100 p (mkVM (Some (mkF 0 0)) [] 0) in w = 5 /\ d = 1.
Proof. vm_compute. auto. Qed.
