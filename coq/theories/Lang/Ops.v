(* C01-M1: the binary and unary operators on primitive operands, as
   BytecodeVM::execute_op implements them (after fixes 5fc4840, 1e72dba,
   ff7e00e, a62973b) and as ECMAScript specifies them, over an abstract IEEE
   double signature: the float operations, ToNumber on strings, Number::toString
   and the 32-bit conversions are parameters shared by both sides (C15 covers
   them); what is compared is the dispatch: which conversion is applied to
   which operand and which operation decides the result. No proofs here. *)
From Coq Require Import String ZArith Bool List.
Import ListNotations.

Section Ops.
  Variable F : Type.
  Variables fadd fsub fmul fdiv frem fpow : F -> F -> F.
  Variable fneg fabs : F -> F.
  Variables flt feq : F -> F -> bool.          (* IEEE <, == : false on NaN *)
  Variables fnan fzero fone finf : F.
  Variable fisnan : F -> bool.
  Variable tonum : string -> F.                 (* value::string_to_number / ES StringToNumber *)
  Variable tostr : F -> string.                 (* value::number_to_string / ES Number::toString *)
  Variable toint32 touint32 : F -> Z.           (* C15 *)
  Variable ofint : Z -> F.
  Variable str_lt : string -> string -> bool.   (* UTF-16 code unit order *)

  Inductive prim := PUndef | PNull | PBool (b : bool) | PNum (x : F) | PStr (s : string).

  Inductive binop := Add | Sub | Mul | Div | Mod | Exp | Eq | NotEq | StrictEq | StrictNotEq
                   | Lt | LtEq | Gt | GtEq | BitAnd | BitOr | BitXor | LShift | RShift | URShift
                   | And | Or | Nullish.
  Inductive unop := Neg | Plus | Not | BitNot | Typeof | Void.

  (* ---------------- implementation side (JsValue methods, execute_op) ---------------- *)
  Definition to_number (v : prim) : F :=
    match v with
    | PUndef => fnan | PNull => fzero | PBool true => fone | PBool false => fzero
    | PNum x => x | PStr s => tonum s
    end.
  Definition to_js_string (v : prim) : string :=
    match v with
    | PUndef => "undefined" | PNull => "null" | PBool true => "true" | PBool false => "false"
    | PNum x => tostr x | PStr s => s
    end%string.
  Definition to_boolean (v : prim) : bool :=
    match v with
    | PUndef | PNull => false | PBool b => b
    | PNum x => negb (feq x fzero) && negb (fisnan x)
    | PStr s => negb (String.eqb s "")
    end.
  Definition same_kind (a b : prim) : bool :=
    match a, b with
    | PUndef, PUndef | PNull, PNull | PBool _, PBool _ | PNum _, PNum _ | PStr _, PStr _ => true
    | _, _ => false
    end.
  (* JsValue::strict_equals *)
  Definition strict_equals (a b : prim) : bool :=
    match a, b with
    | PUndef, PUndef => true | PNull, PNull => true
    | PBool x, PBool y => Bool.eqb x y
    | PNum x, PNum y => if fisnan x || fisnan y then false else feq x y
    | PStr x, PStr y => String.eqb x y
    | _, _ => false
    end.
  (* Interpreter::abstract_equals; the Boolean case recurses exactly once more *)
  Definition abstract_equals_noboolean (a b : prim) : bool :=
    if same_kind a b then strict_equals a b else
    match a, b with
    | PUndef, PNull | PNull, PUndef => true
    | PNum n, PStr s => feq n (tonum s)
    | PStr s, PNum n => feq (tonum s) n
    | _, _ => false
    end.
  Definition abstract_equals (a b : prim) : bool :=
    if same_kind a b then strict_equals a b else
    match a, b with
    | PUndef, PNull | PNull, PUndef => true
    | PNum n, PStr s => feq n (tonum s)
    | PStr s, PNum n => feq (tonum s) n
    | PBool x, other => abstract_equals_noboolean (PNum (if x then fone else fzero)) other
    | other, PBool y => abstract_equals_noboolean other (PNum (if y then fone else fzero))
    | _, _ => false
    end.
  (* relational_order *)
  Inductive ordering := Less | Equal | Greater.
  Definition relational_order (a b : prim) : option ordering :=
    match a, b with
    | PStr l, PStr r => Some (if str_lt l r then Less else if str_lt r l then Greater else Equal)
    | _, _ => let x := to_number a in let y := to_number b in
              if flt x y then Some Less else if feq x y then Some Equal else if flt y x then Some Greater else None
    end.
  (* value::number_exponentiate *)
  Definition exponentiate (b e : F) : F :=
    if fisnan e || (feq (fabs b) fone && feq (fabs e) finf) then fnan else fpow b e.

  Definition i32_bin (f : Z -> Z -> Z) (a b : prim) : prim := PNum (ofint (f (toint32 (to_number a)) (toint32 (to_number b)))).

  Definition vm_binop (o : binop) (a b : prim) : prim :=
    match o with
    | Add => match a, b with
             | PStr s, _ => PStr (s ++ to_js_string b)
             | _, PStr t => PStr (to_js_string a ++ t)
             | _, _ => PNum (fadd (to_number a) (to_number b))
             end
    | Sub => PNum (fsub (to_number a) (to_number b))
    | Mul => PNum (fmul (to_number a) (to_number b))
    | Div => PNum (fdiv (to_number a) (to_number b))
    | Mod => PNum (frem (to_number a) (to_number b))
    | Exp => PNum (exponentiate (to_number a) (to_number b))
    | Eq => PBool (abstract_equals a b)
    | NotEq => PBool (negb (abstract_equals a b))
    | StrictEq => PBool (strict_equals a b)
    | StrictNotEq => PBool (negb (strict_equals a b))
    | Lt => PBool (match relational_order a b with Some Less => true | _ => false end)
    | LtEq => PBool (match relational_order a b with Some Less | Some Equal => true | _ => false end)
    | Gt => PBool (match relational_order a b with Some Greater => true | _ => false end)
    | GtEq => PBool (match relational_order a b with Some Greater | Some Equal => true | _ => false end)
    | BitAnd => i32_bin Z.land a b
    | BitOr => i32_bin Z.lor a b
    | BitXor => i32_bin Z.lxor a b
    | LShift => PNum (ofint (toint32 (ofint (Z.shiftl (toint32 (to_number a)) (Z.land (touint32 (to_number b)) 31)))))
    | RShift => PNum (ofint (Z.shiftr (toint32 (to_number a)) (Z.land (touint32 (to_number b)) 31)))
    | URShift => PNum (ofint (Z.shiftr (touint32 (to_number a)) (Z.land (touint32 (to_number b)) 31)))
    | And => if to_boolean a then b else a           (* JumpIfFalse on the left value *)
    | Or => if to_boolean a then a else b
    | Nullish => match a with PUndef | PNull => b | _ => a end
    end.

  Definition vm_unop (o : unop) (a : prim) : prim :=
    match o with
    | Neg => PNum (fneg (to_number a))
    | Plus => PNum (to_number a)
    | Not => PBool (negb (to_boolean a))
    | BitNot => PNum (ofint (- toint32 (to_number a) - 1))
    | Typeof => PStr (match a with PUndef => "undefined" | PNull => "object" | PBool _ => "boolean"
                             | PNum _ => "number" | PStr _ => "string" end)
    | Void => PUndef
    end.

  (* ---------------- specification side (ECMA-262, written from the spec text) ---------------- *)
  Definition ToNumber (v : prim) : F :=
    match v with
    | PUndef => fnan | PNull => fzero | PBool b => if b then fone else fzero | PNum x => x | PStr s => tonum s
    end.
  Definition ToString (v : prim) : string :=
    match v with
    | PUndef => "undefined" | PNull => "null" | PBool b => if b then "true" else "false" | PNum x => tostr x | PStr s => s
    end%string.
  Definition ToBoolean (v : prim) : bool :=
    match v with
    | PUndef => false | PNull => false | PBool b => b
    | PNum x => if fisnan x then false else if feq x fzero then false else true
    | PStr s => if String.eqb s "" then false else true
    end.
  (* Number::equal, Number::sameValue irrelevant here *)
  Definition IsStrictlyEqual (x y : prim) : bool :=
    match x, y with
    | PNum a, PNum b => if fisnan a then false else if fisnan b then false else feq a b
    | PUndef, PUndef => true | PNull, PNull => true
    | PStr a, PStr b => String.eqb a b
    | PBool a, PBool b => Bool.eqb a b
    | _, _ => false
    end.
  (* 7.2.14 IsLooselyEqual, steps as numbered in the specification; the recursion through
     booleans is at most two deep on primitives, so it is unrolled with fuel 3 *)
  Fixpoint IsLooselyEqual (fuel : nat) (x y : prim) : bool :=
    match fuel with
    | O => false
    | S f =>
        if same_kind x y then IsStrictlyEqual x y else
        match x, y with
        | PNull, PUndef => true
        | PUndef, PNull => true
        | PNum a, PStr s => IsLooselyEqual f x (PNum (tonum s))
        | PStr s, PNum b => IsLooselyEqual f (PNum (tonum s)) y
        | PBool b, _ => IsLooselyEqual f (PNum (ToNumber x)) y
        | _, PBool b => IsLooselyEqual f x (PNum (ToNumber y))
        | _, _ => false
        end
    end.
  (* 7.2.13 IsLessThan on primitives: Some true / Some false / None (= undefined) *)
  Definition IsLessThan (px py : prim) : option bool :=
    match px, py with
    | PStr a, PStr b => Some (str_lt a b)
    | _, _ => let nx := ToNumber px in let ny := ToNumber py in
              if fisnan nx then None else if fisnan ny then None else Some (flt nx ny)
    end.
  Definition Exponentiate (b e : F) : F :=
    if fisnan e then fnan else if feq (fabs b) fone && feq (fabs e) finf then fnan else fpow b e.

  Definition es_binop (o : binop) (a b : prim) : prim :=
    match o with
    | Add => match a, b with
             | PStr _, _ | _, PStr _ => PStr (ToString a ++ ToString b)
             | _, _ => PNum (fadd (ToNumber a) (ToNumber b))
             end
    | Sub => PNum (fsub (ToNumber a) (ToNumber b))
    | Mul => PNum (fmul (ToNumber a) (ToNumber b))
    | Div => PNum (fdiv (ToNumber a) (ToNumber b))
    | Mod => PNum (frem (ToNumber a) (ToNumber b))
    | Exp => PNum (Exponentiate (ToNumber a) (ToNumber b))
    | Eq => PBool (IsLooselyEqual 3 a b)
    | NotEq => PBool (negb (IsLooselyEqual 3 a b))
    | StrictEq => PBool (IsStrictlyEqual a b)
    | StrictNotEq => PBool (negb (IsStrictlyEqual a b))
    | Lt => PBool (match IsLessThan a b with Some true => true | _ => false end)
    | Gt => PBool (match IsLessThan b a with Some true => true | _ => false end)
    | LtEq => PBool (match IsLessThan b a with Some false => true | _ => false end)   (* not (b < a), undefined -> false *)
    | GtEq => PBool (match IsLessThan a b with Some false => true | _ => false end)
    | BitAnd => PNum (ofint (Z.land (toint32 (ToNumber a)) (toint32 (ToNumber b))))
    | BitOr => PNum (ofint (Z.lor (toint32 (ToNumber a)) (toint32 (ToNumber b))))
    | BitXor => PNum (ofint (Z.lxor (toint32 (ToNumber a)) (toint32 (ToNumber b))))
    | LShift => PNum (ofint (toint32 (ofint (Z.shiftl (toint32 (ToNumber a)) (Z.land (touint32 (ToNumber b)) 31)))))
    | RShift => PNum (ofint (Z.shiftr (toint32 (ToNumber a)) (Z.land (touint32 (ToNumber b)) 31)))
    | URShift => PNum (ofint (Z.shiftr (touint32 (ToNumber a)) (Z.land (touint32 (ToNumber b)) 31)))
    | And => if ToBoolean a then b else a
    | Or => if ToBoolean a then a else b
    | Nullish => match a with PUndef => b | PNull => b | _ => a end
    end.

  Definition es_unop (o : unop) (a : prim) : prim :=
    match o with
    | Neg => PNum (fneg (ToNumber a))
    | Plus => PNum (ToNumber a)
    | Not => PBool (negb (ToBoolean a))
    | BitNot => PNum (ofint (- toint32 (ToNumber a) - 1))      (* bitwise complement of a 32-bit integer *)
    | Typeof => PStr (match a with PUndef => "undefined" | PNull => "object" | PBool _ => "boolean"
                             | PNum _ => "number" | PStr _ => "string" end)
    | Void => PUndef
    end.
End Ops.
