(* C01 -- property theorems only (mechanism M1: operators on primitive operands). *)
From Coq Require Import String ZArith Bool List.
From TsrunV Require Import Lang.Ops Lang.OpsProofs.
Import ListNotations.

(* For every double model satisfying the IEEE comparison laws below, every
   ToNumber / Number::toString / ToInt32 functions and every pair of primitive
   operands (all doubles, all strings, booleans, null, undefined): each of the 23
   binary operators as the VM implements it equals the ECMAScript operator. *)
Theorem c01_binop_refines_es :
  forall (F : Type) (fadd fsub fmul fdiv frem fpow : F -> F -> F) (fabs : F -> F) (flt feq : F -> F -> bool)
         (fnan fzero fone finf : F) (fisnan : F -> bool) (tonum : string -> F) (tostr : F -> string)
         (toint32 touint32 : F -> Z) (ofint : Z -> F) (str_lt : string -> string -> bool),
  (forall x y, flt x y = true -> fisnan x = false /\ fisnan y = false) ->
  (forall x y, feq x y = true -> fisnan x = false /\ fisnan y = false) ->
  (forall x y, fisnan x = false -> fisnan y = false -> (flt x y || feq x y) = negb (flt y x)) ->
  (forall x y, flt x y = true -> feq x y = false) ->
  (forall a b, str_lt a b = true -> str_lt b a = false) ->
  forall o a b,
    vm_binop F fadd fsub fmul fdiv frem fpow fabs flt feq fnan fzero fone finf fisnan tonum tostr toint32 touint32 ofint str_lt o a b =
    es_binop F fadd fsub fmul fdiv frem fpow fabs flt feq fnan fzero fone finf fisnan tonum tostr toint32 touint32 ofint str_lt o a b.
Proof.
  intros. apply binop_refines_es; auto.
Qed.
Print Assumptions c01_binop_refines_es.

Theorem c01_unop_refines_es :
  forall (F : Type) (fneg : F -> F) (feq : F -> F -> bool) (fnan fzero fone : F) (fisnan : F -> bool)
         (tonum : string -> F) (toint32 : F -> Z) (ofint : Z -> F) o a,
    vm_unop F fneg feq fnan fzero fone fisnan tonum toint32 ofint o a =
    es_unop F fneg feq fnan fzero fone fisnan tonum toint32 ofint o a.
Proof. exact unop_refines_es. Qed.
Print Assumptions c01_unop_refines_es.
