(* C01, mechanism M4: executable instance of Lang/ArrayPattern.v for the correspondence check
   (values are integers, undefined is -1, the finishing result carries 99). *)
From Coq Require Import List String ZArith Bool.
From TsrunV Require Import Base.Render Lang.ArrayPattern.
Import ListNotations.
Local Open Scope string_scope.

Definition show_op (o : op) : string :=
  match o with
  | OInit => "init"
  | OJumpIfDone t => "jd" ++ string_of_nat t
  | ONext => "next"
  | OIterDone t => "id" ++ string_of_nat t
  | OValue => "value"
  | OJump t => "j" ++ string_of_nat t
  | OSetDone => "setdone"
  | OUndef => "undef"
  | OBind => "bind"
  | OClose => "close"
  | ORest => "rest"
  | OEmptyRest => "emptyrest"
  | OBindRest => "bindrest"
  end.

Definition show_outcome (b : list Z) (n : nat) (c : bool) : string :=
  String.concat "," (map string_of_Z b) ++ "/" ++ string_of_nat n ++ "/" ++ string_of_bool c.

(* code at index p | outcome of the model machine | outcome ECMAScript prescribes *)
Definition pattern_case (ks : list bool) (p : nat) (it : list Z) : string :=
  let code := cpattern ks 0 in
  String.concat ";" (map show_op (cpattern ks p)) ++ "|" ++
  match run_halt Z (-1)%Z 99%Z code (20 * (2 + List.length ks)) (mk Z 0 it (RNone Z) 0%Z true [] 0 false) with
  | Some s => show_outcome (bound Z s) (nexts Z s) (closed Z s)
  | None => "nofuel"
  end ++ "|" ++
  let a := spec Z (-1)%Z ks it in show_outcome (a_bound Z a) (a_nexts Z a) (spec_closed Z (-1)%Z ks it).

(* the same for a pattern ending in a rest element; the outcome lists the positions' values and
   then the elements of the rest array, separated by "r" *)
Definition show_outcome_rest (npos : nat) (b : list Z) (n : nat) (c : bool) : string :=
  String.concat "," (map string_of_Z (firstn npos b)) ++ "r" ++ String.concat "," (map string_of_Z (skipn npos b)) ++
  "/" ++ string_of_nat n ++ "/" ++ string_of_bool c.

Definition pattern_rest_case (ks : list bool) (p : nat) (it : list Z) : string :=
  let code := cpattern_rest ks 0 in
  let npos := List.length (positions ks 0) in
  String.concat ";" (map show_op (cpattern_rest ks p)) ++ "|" ++
  match run_halt Z (-1)%Z 99%Z code (20 * (3 + List.length ks)) (mk Z 0 it (RNone Z) 0%Z true [] 0 false) with
  | Some s => show_outcome_rest npos (bound Z s) (nexts Z s) (closed Z s)
  | None => "nofuel"
  end ++ "|" ++
  let a := spec_rest Z (-1)%Z ks it in show_outcome_rest npos (a_bound Z a) (a_nexts Z a) false.
