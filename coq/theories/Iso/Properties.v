(* C12 -- execution is deterministic and interpreter instances are isolated. Only statements. *)
From Coq Require Import List String Bool Arith.
From TsrunV Require Import Iso.Model Iso.Proofs Generated.FactsC12.
Import ListNotations.
Local Open Scope string_scope.

(* An instance whose step is a function of its own state produces, under
   every interleaving with anything else (another interpreter, of any state
   type, doing anything), exactly the trace it produces alone. *)
Theorem c12_isolation : forall (A B OA OB : Type) (stepA : A -> A * OA) (stepB : B -> B * OB) sched a b,
  fst (inter A B OA OB stepA stepB sched a b) = solo stepA (turns true sched) a /\
  snd (inter A B OA OB stepA stepB sched a b) = solo stepB (turns false sched) b.
Proof. exact isolation. Qed.
Print Assumptions c12_isolation.

Theorem c12_schedule_irrelevant : forall (A B OA OB : Type) (stepA : A -> A * OA) (stepB : B -> B * OB) s1 s2 a b1 b2,
  turns true s1 = turns true s2 ->
  fst (inter A B OA OB stepA stepB s1 a b1) = fst (inter A B OA OB stepA stepB s2 a b2).
Proof. exact schedule_irrelevant. Qed.
Print Assumptions c12_schedule_irrelevant.

(* What makes an Interpreter such an instance, read from the source on every
   run: the only process-wide or environment-dependent state in non-test code
   of src/ (statics, thread-locals, lazy cells, atomics, randomly seeded
   hashers, clocks) is the clock behind the replaceable time/random providers. *)
Theorem c12_only_the_providers_touch_the_process :
  global_state_decls = ["src/platform/std_impl.rs: Instant::now"; "src/platform/std_impl.rs: SystemTime"].
Proof. reflexivity. Qed.
Print Assumptions c12_only_the_providers_touch_the_process.

(* hash-map iteration that can influence execution order: two sites, both over FxHashMap (fixed hasher, no per-process seed) *)
Theorem c12_hash_iteration_sites :
  hash_iteration_sites = ["interpreter/mod.rs::check_resolved_promises iterates wait_graph.promise_waiters";
                          "interpreter/mod.rs::process_pending_modules iterates pending_module_sources"].
Proof. reflexivity. Qed.
Print Assumptions c12_hash_iteration_sites.

(* non-vacuity: two counters, one schedule *)
Theorem c12_witness :
  inter nat nat nat nat (fun a => (S a, a)) (fun b => (b + 10, b)) [true; false; false; true; true] 0 100 = ([0; 1; 2], [100; 110]).
Proof. vm_compute. reflexivity. Qed.
Print Assumptions c12_witness.
