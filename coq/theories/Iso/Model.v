(* C12: instances that share no state do not influence each other.
   Two machines with their own state types, stepped in any interleaving. The
   second machine is arbitrary: it stands for everything else that happens in
   the process (other interpreters being created, run, failing, dropped). *)
From Coq Require Import List Bool Arith.
Import ListNotations.

Section Iso.
  Variables A B OA OB : Type.
  Variable stepA : A -> A * OA.
  Variable stepB : B -> B * OB.

  Fixpoint solo {S O : Type} (step : S -> S * O) (n : nat) (s : S) : list O :=
    match n with
    | O => []
    | S k => let '(s', o) := step s in o :: solo step k s'
    end.

  (* true: the scheduler (a thread scheduler, a host loop) gives the next step to A *)
  Fixpoint inter (sched : list bool) (a : A) (b : B) : list OA * list OB :=
    match sched with
    | [] => ([], [])
    | true :: r => let '(a', o) := stepA a in let '(la, lb) := inter r a' b in (o :: la, lb)
    | false :: r => let '(b', o) := stepB b in let '(la, lb) := inter r a b' in (la, o :: lb)
    end.

  Definition turns (x : bool) (sched : list bool) : nat := length (filter (Bool.eqb x) sched).
End Iso.
