From Coq Require Import List Bool Arith.
From TsrunV Require Import Iso.Model.
Import ListNotations.

Section P.
  Variables A B OA OB : Type.
  Variable stepA : A -> A * OA.
  Variable stepB : B -> B * OB.

  Theorem isolation : forall sched a b,
    fst (inter A B OA OB stepA stepB sched a b) = solo stepA (turns true sched) a /\
    snd (inter A B OA OB stepA stepB sched a b) = solo stepB (turns false sched) b.
  Proof.
    induction sched as [|x r IH]; intros a b; [split; reflexivity|].
    destruct x; cbn [inter turns filter Bool.eqb length].
    - destruct (stepA a) as [a' o] eqn:E. specialize (IH a' b).
      destruct (inter A B OA OB stepA stepB r a' b) as [la lb]. cbn in *. destruct IH as [H1 H2].
      unfold turns in *. cbn. rewrite E. split; [now rewrite H1|exact H2].
    - destruct (stepB b) as [b' o] eqn:E. specialize (IH a b').
      destruct (inter A B OA OB stepA stepB r a b') as [la lb]. cbn in *. destruct IH as [H1 H2].
      unfold turns in *. cbn. rewrite E. split; [exact H1|now rewrite H2].
  Qed.

  (* two schedules that give A the same number of turns show A the same trace, whatever B is and does *)
  Corollary schedule_irrelevant : forall s1 s2 a b1 b2,
    turns true s1 = turns true s2 ->
    fst (inter A B OA OB stepA stepB s1 a b1) = fst (inter A B OA OB stepA stepB s2 a b2).
  Proof.
    intros s1 s2 a b1 b2 H.
    rewrite (proj1 (isolation s1 a b1)), (proj1 (isolation s2 a b2)). now rewrite H.
  Qed.
End P.
