#!/bin/sh
# helper: regenerate Makefile if needed and build, filtered output
cd /verif/coq
coq_makefile -f _CoqProject -o Makefile >/dev/null 2>&1
timeout ${T:-600} make -j16 "$@" 2>&1 | grep -v "conda\|^COQDEP\|^COQC\|^make" | head -${N:-40}
