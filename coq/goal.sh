#!/bin/sh
# usage: goal.sh theories/X/Y.v LINE  -> goals after executing lines 1..LINE
cd /verif/coq
head -n "$2" "$1" > /tmp/goal_in.v
echo 'Show.' >> /tmp/goal_in.v
timeout 120 coqtop -quiet -Q theories TsrunV < /tmp/goal_in.v 2>&1 | grep -v conda | tail -n ${N:-45}
